------------------------------- MODULE PyFlow -------------------------------
(***************************************************************************)
(* A function body as an indentation-structured sequence of lines, an      *)
(* interpreter for it, its data flow (live variables, definite             *)
(* assignment), and the refactorings "extract a run of statements into a   *)
(* new function" and "extract a sub-expression into a variable / a         *)
(* function" defined on that abstract program.                             *)
(*                                                                         *)
(*   line  == [n, d, k, t, r, c]                                           *)
(*      n  literal id written into the line (provenance: survives moves)   *)
(*      d  depth (0 = function body level)                                 *)
(*      k  "asg"  t = (n, (r..))        "aug"  t += (n, (r..))             *)
(*         "prt"  print((n, (r..)))     "ret"  return (n, (r..))           *)
(*         "if"   if c:                 "else" else:                       *)
(*         "for"  for t in ((n, 1), (n, 2)):    (t = "" : no variable)     *)
(*         "whl"  while _w(n, c):       at most two rounds per entry       *)
(*         "brk"  break                 "cnt"  continue                    *)
(*         "rtn"  return               (no value: a guard clause)          *)
(*         "ifa"  if c: t = (n, (r..))          compound statements on one  *)
(*         "wha"  while _w(n, c): t = (n, (r..))        physical line       *)
(*         "cmp"  print((n, tuple([t for t in (r..)])))   t: comprehension   *)
(*                variable, does not bind outside the comprehension         *)
(*         "try"  try:                  "exc"  except NameError:            *)
(*                reading an unbound name inside the try block runs the     *)
(*                handler block                                             *)
(*      an "else" line may also follow the block of a for / while: it runs  *)
(*      when the loop ends without break; break / continue inside it belong *)
(*      to the enclosing loop                                               *)
(*      t  assigned variable, r set of variables read, c condition input   *)
(*                                                                         *)
(* Values are provenance tuples, so a wrong data flow changes the output.  *)
(* The observable of a run is (printed values, raised?, returned value).   *)
(*                                                                         *)
(* What TLC checks here is the oracle: that a function with parameters     *)
(* Params(i,j) and results Results(i,j), called in place of lines i..j,    *)
(* leaves the observable unchanged for every input valuation, for every    *)
(* program and region within the bounds (ExtractSound), and likewise for   *)
(* the expression forms (ExprSound).  The binding then holds rope to the   *)
(* same observable.                                                        *)
(***************************************************************************)
EXTENDS Naturals, Sequences, FiniteSets, TLC

CONSTANTS MaxLines,     \* lines per body
          MaxDepth,     \* deepest indentation level (0-based)
          Kinds,        \* line kinds in use
          InitSets,     \* set of sets of variables bound on entry (parameters with defaults)
          ReadSets,     \* read sets in use (SUBSET Vars = all; smaller to focus a run on control flow)
          ForTargets,   \* loop variables in use (Vars \cup {""} = all)
          StmtOn,       \* BOOLEAN: statement extraction actions
          ExprOn,       \* BOOLEAN: expression extraction actions
          BackEdges,    \* BOOLEAN: liveness follows loop back edges (TRUE = the oracle; FALSE only to show sensitivity)
          RequireDA,    \* BOOLEAN: parameters must be definitely assigned at the region (TRUE = the oracle)
          ClassOn,      \* BOOLEAN: statement extraction with similar=TRUE inside a class with sibling methods
          RewriteAll,   \* BOOLEAN: every sibling is rewritten (FALSE = the oracle; TRUE only to show sensitivity)
          CheckStale    \* BOOLEAN: one definition for all matches needs OneDefOK (TRUE = the oracle)

Vars     == {"a", "b"}
Conds    == {"c1", "c2"}
XVar     == "x"                       \* the fresh name introduced by extract variable
AllVars  == Vars \cup Conds \cup {XVar}
VarOrder == <<"a", "b">>              \* order in which reads are written in a tuple
Valuations == [Conds -> BOOLEAN]

VARIABLES body,    \* Seq(line)
          init,    \* variables bound on entry
          phase,   \* "build" | "done"
          ext      \* the refactoring request performed, NoExt while building

vars == <<body, init, phase, ext>>

Max(S) == CHOOSE x \in S : \A y \in S : y <= x
Min(S) == CHOOSE x \in S : \A y \in S : x <= y

-----------------------------------------------------------------------------
(* Line alphabet and well-formed indentation                               *)

Shape(k, t, r, c) == [k |-> k, t |-> t, r |-> r, c |-> c]
Shapes ==
  { Shape(k, t, r, "") : k \in ({"asg", "aug"} \cap Kinds), t \in Vars, r \in ReadSets }
  \cup { Shape(k, "", r, "") : k \in ({"prt", "ret"} \cap Kinds), r \in ReadSets }
  \cup { Shape(k, "", {}, c) : k \in ({"if", "whl"} \cap Kinds), c \in Conds }
  \cup { Shape(k, t, {}, "") : k \in ({"for"} \cap Kinds), t \in ForTargets }
  \cup { Shape(k, "", {}, "") : k \in ({"else", "brk", "cnt", "rtn", "try", "exc"} \cap Kinds) }
  \cup { sh \in { Shape(k, t, r, "") : k \in ({"cmp"} \cap Kinds), t \in Vars, r \in ReadSets } : sh.t \notin sh.r }
  \cup { Shape(k, t, r, c) : k \in ({"ifa", "wha"} \cap Kinds), t \in Vars, r \in {{}, Vars}, c \in Conds }

MkLine(sh, n, d) == [n |-> n, d |-> d, k |-> sh.k, t |-> sh.t, r |-> sh.r, c |-> sh.c]

IsHeader(l) == l.k \in {"if", "else", "for", "whl", "try", "exc"}
Clause(l)   == l.k \in {"else", "exc"}        \* continues the statement of an earlier header
IsLoop(l)   == l.k \in {"for", "whl", "wha"}
Inline(l)   == l.k \in {"ifa", "wha"}          \* a compound statement on one physical line
Abrupt(l)   == l.k \in {"ret", "rtn", "brk", "cnt"}
Simple(l)   == l.k \in {"asg", "aug", "prt", "ret"}
HasTuple(l) == Simple(l) \/ Inline(l) \/ l.k = "cmp"     \* the line carries a tuple (n, (r..))

\* may a line of shape sh be appended to s at depth d
CanAppend(s, sh, d) ==
  /\ d \in 0..MaxDepth
  /\ IsHeader(sh) => (d < MaxDepth /\ Len(s) + 1 < MaxLines)
  /\ IF s = <<>> THEN d = 0 /\ ~Clause(sh)
     ELSE LET p == s[Len(s)] IN
          /\ IF IsHeader(p) THEN d = p.d + 1 ELSE d <= p.d
          /\ Abrupt(p) => d < p.d                       \* no dead code
          /\ sh.k = "else" =>
               /\ ~IsHeader(p)
               /\ LET q == Max({m \in 1..Len(s) : s[m].d <= d})
                  IN s[q].d = d /\ s[q].k \in {"if", "for", "whl"}
          /\ sh.k = "exc" =>
               /\ ~IsHeader(p)
               /\ LET q == Max({m \in 1..Len(s) : s[m].d <= d})
                  IN s[q].d = d /\ s[q].k = "try"
          \* a try block can only be closed by its except clause
          /\ \A h \in 1..(Len(s) - 1) :
                (s[h].k = "try" /\ s[h].d >= d /\ \A m \in (h+1)..Len(s) : s[m].d > s[h].d)
                   => (s[h].d = d /\ sh.k = "exc")
  /\ sh.k \in {"brk", "cnt"} =>
       \E m \in 1..Len(s) : /\ IsLoop(s[m]) /\ s[m].d < d
                            /\ \A m2 \in (m+1)..Len(s) : s[m2].d > s[m].d

Complete(s) ==
  /\ s # <<>> /\ ~IsHeader(s[Len(s)])
  /\ ~\E h \in 1..Len(s) : s[h].k = "try" /\ \A m \in (h+1)..Len(s) : s[m].d > s[h].d

-----------------------------------------------------------------------------
(* Structure                                                               *)

\* last line of the block of deeper lines that follows line i
BlockEnd(b, i) == Max({j \in i..Len(b) : \A m \in (i+1)..j : b[m].d > b[i].d})

HasElse(b, i) ==
  LET e == BlockEnd(b, i)
  IN b[i].k \in {"if", "for", "whl"} /\ e < Len(b) /\ b[e+1].k = "else" /\ b[e+1].d = b[i].d
ElseLo(b, i) == BlockEnd(b, i) + 2
ElseHi(b, i) == BlockEnd(b, BlockEnd(b, i) + 1)

\* last line of the statement that starts at line i (an if / a loop owns its else)
StmtEnd(b, i) ==
  LET e == BlockEnd(b, i) IN IF HasElse(b, i) \/ b[i].k = "try" THEN BlockEnd(b, e + 1) ELSE e

\* header of the block that line i is a member of, 0 at function level
Parent(b, i) ==
  LET S == {p \in 1..(i-1) : b[p].d < b[i].d} IN IF S = {} THEN 0 ELSE Max(S)

\* the if that an else line belongs to
IfOf(b, p) == Max({m \in 1..(p-1) : b[m].d <= b[p].d})

\* statement of the block at nesting k (1 = function level) that contains m
StmtAt(b, m, k) ==
  LET q == Max({x \in 1..m : b[x].d <= k - 1})
  IN IF Clause(b[q]) THEN IfOf(b, q) ELSE q

\* loops around line m
LoopAncestors(b, m) == {p \in 1..(m-1) : IsLoop(b[p]) /\ BlockEnd(b, p) >= m}

\* lines i..j are a run of complete statements of one block
RECURSIVE Reach(_, _, _)
Reach(b, i, j) ==
  LET e == StmtEnd(b, i) IN
  IF e = j THEN TRUE
  ELSE IF e > j THEN FALSE
  ELSE b[e+1].d = b[i].d /\ ~Clause(b[e+1]) /\ Reach(b, e + 1, j)

IsRun(b, i, j) == 1 <= i /\ i <= j /\ j <= Len(b) /\ ~Clause(b[i]) /\ Reach(b, i, j)

\* break / continue in i..j belong to a loop inside i..j
NoEscape(b, i, j) ==
  \A m \in i..j : b[m].k \in {"brk", "cnt"} =>
     \E p \in i..(m-1) : IsLoop(b[p]) /\ BlockEnd(b, p) >= m

\* a return may only be the last statement of the run itself
RetOK(b, i, j) == \A m \in i..j : b[m].k \in {"ret", "rtn"} => (m = j /\ b[m].d = b[i].d)

-----------------------------------------------------------------------------
(* Interpreter                                                             *)

NoSub == [sub |-> "none", v |-> "", via |-> ""]
Xs(l) == IF "xs" \in DOMAIN l THEN l.xs ELSE NoSub

InitVal(v) == IF v = "a" THEN <<90, <<>>>> ELSE <<91, <<>>>>

St0(initB) ==
  [env |-> [v \in AllVars |-> IF v \in Vars THEN InitVal(v) ELSE <<>>],
   bnd |-> initB \cup Conds, out |-> <<>>, sig |-> "norm", rv |-> <<>>,
   wc |-> [n \in 0..MaxLines |-> 0]]

Raise(st)      == [st EXCEPT !.sig = "exc"]
Bind(st, v, x) == [st EXCEPT !.env[v] = x, !.bnd = @ \cup {v}]
Norm(st)       == [st EXCEPT !.sig = "norm"]

\* variables that have to be bound to evaluate the expression of line l
Needs(l) ==
  LET xs == Xs(l) IN
  IF xs.sub = "none" \/ xs.via = "call" THEN l.r
  ELSE IF xs.sub = "name" THEN (l.r \ {xs.v}) \cup {XVar}
  ELSE {XVar}

Group(r, env, from, to) ==
  LET s == SelectSeq(VarOrder, LAMBDA v : v \in r)
  IN [k \in 1..Len(s) |-> IF s[k] = from THEN env[to] ELSE env[s[k]]]

ExprVal(l, env) ==
  LET xs == Xs(l)
      viaVar == xs.via = "var"
      grp == IF xs.sub = "group" /\ viaVar THEN env[XVar]
             ELSE IF xs.sub = "name" /\ viaVar THEN Group(l.r, env, xs.v, XVar)
             ELSE Group(l.r, env, "", "")
  IN IF xs.sub = "whole" /\ viaVar THEN env[XVar] ELSE <<l.n, grp>>

\* value of the definition line  x = <extracted sub-expression>
XDefVal(l, env) ==
  LET xs == Xs(l) IN
  IF xs.sub = "name" THEN env[xs.v]
  ELSE IF xs.sub = "group" THEN Group(l.r, env, "", "")
  ELSE <<l.n, Group(l.r, env, "", "")>>
XDefNeeds(l) == IF Xs(l).sub = "name" THEN {Xs(l).v} ELSE l.r

NoHelper == [params |-> {}, results |-> {}, ret |-> FALSE, body |-> <<>>, recvok |-> TRUE]

RECURSIVE ExecRange(_, _, _, _, _, _), ExecStmt(_, _, _, _, _),
          ExecFor(_, _, _, _, _, _), ExecWhl(_, _, _, _, _)

ExecRange(b, H, lo, hi, inp, st) ==
  IF lo > hi \/ st.sig # "norm" THEN st
  ELSE ExecRange(b, H, StmtEnd(b, lo) + 1, hi, inp, ExecStmt(b, H, lo, inp, st))

ExecStmt(b, H, i, inp, st) ==
  LET l == b[i]
      e == BlockEnd(b, i)
  IN
  CASE l.k = "asg" ->
         IF Needs(l) \subseteq st.bnd THEN Bind(st, l.t, ExprVal(l, st.env)) ELSE Raise(st)
    [] l.k = "aug" ->
         IF (Needs(l) \cup {l.t}) \subseteq st.bnd
         THEN Bind(st, l.t, st.env[l.t] \o ExprVal(l, st.env)) ELSE Raise(st)
    [] l.k = "try" ->
         LET st1 == ExecRange(b, H, i + 1, e, inp, st)
         IN IF st1.sig = "exc" THEN ExecRange(b, H, e + 2, BlockEnd(b, e + 1), inp, Norm(st1)) ELSE st1
    [] l.k \in {"prt", "cmp"} ->
         IF Needs(l) \subseteq st.bnd
         THEN [st EXCEPT !.out = Append(@, ExprVal(l, st.env))] ELSE Raise(st)
    [] l.k = "ret" ->
         IF Needs(l) \subseteq st.bnd
         THEN [st EXCEPT !.sig = "ret", !.rv = ExprVal(l, st.env)] ELSE Raise(st)
    [] l.k = "rtn" -> [st EXCEPT !.sig = "ret", !.rv = <<>>]
    [] l.k = "xdef" ->
         IF XDefNeeds(l) \subseteq st.bnd THEN Bind(st, XVar, XDefVal(l, st.env)) ELSE Raise(st)
    [] l.k = "brk" -> [st EXCEPT !.sig = "brk"]
    [] l.k = "cnt" -> [st EXCEPT !.sig = "cnt"]
    [] l.k = "if" ->
         IF l.c \notin st.bnd THEN Raise(st)
         ELSE IF inp[l.c] THEN ExecRange(b, H, i + 1, e, inp, st)
         ELSE IF HasElse(b, i) THEN ExecRange(b, H, e + 2, BlockEnd(b, e + 1), inp, st)
         ELSE st
    [] l.k = "ifa" ->
         IF l.c \notin st.bnd THEN Raise(st)
         ELSE IF ~inp[l.c] THEN st
         ELSE IF Needs(l) \subseteq st.bnd THEN Bind(st, l.t, ExprVal(l, st.env)) ELSE Raise(st)
    [] l.k = "for" -> ExecFor(b, H, i, 1, inp, st)
    [] l.k \in {"whl", "wha"} -> ExecWhl(b, H, i, inp, st)
    [] l.k = "call" ->
         IF ~H.recvok THEN Raise(st)                     \* the receiver (self) is not a name here
         ELSE IF ~(H.params \subseteq st.bnd) THEN Raise(st)   \* arguments are evaluated at the call
         ELSE
           LET st0 == [st EXCEPT !.bnd = H.params]
               st1 == ExecRange(H.body, NoHelper, 1, Len(H.body), inp, st0)
               back == [st EXCEPT !.out = st1.out, !.wc = st1.wc]
           IN IF st1.sig = "exc" THEN Raise(back)
              ELSE IF H.ret THEN [back EXCEPT !.sig = st1.sig, !.rv = st1.rv]
              ELSE IF ~(H.results \subseteq st1.bnd) THEN Raise(back)   \* return a, b in the new function
              ELSE [back EXCEPT !.env = [v \in AllVars |-> IF v \in H.results THEN st1.env[v] ELSE st.env[v]],
                                !.bnd = st.bnd \cup H.results]

ExecFor(b, H, i, k, inp, st) ==
  IF k > 2 THEN (IF HasElse(b, i) THEN ExecRange(b, H, ElseLo(b, i), ElseHi(b, i), inp, st) ELSE st)
  ELSE LET l == b[i]
           st1 == IF l.t # "" THEN Bind(st, l.t, <<l.n, k>>) ELSE st
           st2 == ExecRange(b, H, i + 1, BlockEnd(b, i), inp, st1)
       IN CASE st2.sig = "brk" -> Norm(st2)
            [] st2.sig \in {"cnt", "norm"} -> ExecFor(b, H, i, k + 1, inp, Norm(st2))
            [] OTHER -> st2

\* while _w(n, c): the helper _w lets at most two rounds pass per entry and
\* keeps its counter in module state (a loop left by break keeps the count)
ExecWhl(b, H, i, inp, st) ==
  LET l == b[i] IN
  IF l.c \notin st.bnd THEN Raise(st)
  ELSE IF ~inp[l.c] \/ st.wc[l.n] >= 2
       THEN LET st0 == [st EXCEPT !.wc[l.n] = 0]
            IN IF HasElse(b, i) THEN ExecRange(b, H, ElseLo(b, i), ElseHi(b, i), inp, st0) ELSE st0
  ELSE LET st1 == [st EXCEPT !.wc[l.n] = @ + 1]
           st2 == IF l.k = "wha"
                  THEN (IF Needs(l) \subseteq st1.bnd THEN Bind(st1, l.t, ExprVal(l, st1.env)) ELSE Raise(st1))
                  ELSE ExecRange(b, H, i + 1, BlockEnd(b, i), inp, st1)
       IN CASE st2.sig = "brk" -> Norm(st2)
            [] st2.sig \in {"cnt", "norm"} -> ExecWhl(b, H, i, inp, Norm(st2))
            [] OTHER -> st2

Obs(st) == [out |-> st.out, exc |-> st.sig = "exc",
            rv |-> IF st.sig = "ret" THEN st.rv ELSE <<>>]

Run(b, H, initB, inp) == Obs(ExecRange(b, H, 1, Len(b), inp, St0(initB)))

-----------------------------------------------------------------------------
(* Data flow on the original body                                          *)

FlowVars == Vars \cup Conds

RECURSIVE LB(_, _, _, _, _, _, _, _), LBStmt(_, _, _, _, _, _, _), LoopFix(_, _, _, _, _, _, _, _)

\* variables live before statements lo..hi, given the live sets after them
\* (X), at the target of break (Xb), at the target of continue (Xc) and at
\* the entry of the handler that catches a raise here (Xh);
\* be: follow loop back edges
LB(be, b, lo, hi, X, Xb, Xc, Xh) ==
  IF lo > hi THEN X
  ELSE LBStmt(be, b, lo, LB(be, b, StmtEnd(b, lo) + 1, hi, X, Xb, Xc, Xh), Xb, Xc, Xh)

\* any statement may raise before it has any effect: Xh is live before it
LBStmt(be, b, i, X, Xb, Xc, Xh) ==
  LET l == b[i]
      e == BlockEnd(b, i)
  IN Xh \cup
  (CASE l.k = "asg" -> (X \ {l.t}) \cup l.r
    [] l.k = "aug" -> X \cup {l.t} \cup l.r
    [] l.k \in {"prt", "cmp"} -> X \cup l.r
    [] l.k = "ret" -> l.r
    [] l.k = "rtn" -> {}
    [] l.k = "brk" -> Xb
    [] l.k = "cnt" -> Xc
    [] l.k = "if"  -> {l.c} \cup LB(be, b, i + 1, e, X, Xb, Xc, Xh)
                      \cup (IF HasElse(b, i) THEN LB(be, b, e + 2, BlockEnd(b, e + 1), X, Xb, Xc, Xh) ELSE X)
    [] l.k = "try" -> LB(be, b, i + 1, e, X, Xb, Xc, LB(be, b, e + 2, BlockEnd(b, e + 1), X, Xb, Xc, Xh))
    [] Inline(l) -> {l.c} \cup X \cup l.r             \* the write is conditional: kills nothing
    [] OTHER -> LET Xe == IF HasElse(b, i) THEN LB(be, b, ElseLo(b, i), ElseHi(b, i), X, Xb, Xc, Xh) ELSE X
                IN LoopFix(be, b, i, X, Xe, Xe, Xh, 5))

\* live set at the head of the loop at line i, least fixed point from Xe;
\* X: live after the whole statement (target of break), Xe: live where the
\* loop ends without break (before its else clause, if any)
LoopFix(be, b, i, X, Xe, Hd, Xh, fuel) ==
  LET l == b[i]
      back == IF be THEN Hd ELSE Xe
      inner == LB(be, b, i + 1, BlockEnd(b, i), back, X, back, Xh)
      nxt == IF l.k = "for" THEN Xe \cup (inner \ {l.t}) ELSE {l.c} \cup Xe \cup inner
  IN IF fuel = 0 \/ nxt = Hd THEN nxt ELSE LoopFix(be, b, i, X, Xe, nxt, Xh, fuel - 1)

NoCtx == [live |-> {}, brk |-> {}, cnt |-> {}, h |-> {}]

\* live sets that hold at the end of the block whose header is line p
RECURSIVE BlockCtx(_, _, _), AfterCtx(_, _, _, _)
\* live set after line e, where e ends a statement of the block that i is in
AfterCtx(be, b, i, e) ==
  LET p == Parent(b, i)
      hi == IF p = 0 THEN Len(b) ELSE BlockEnd(b, p)
      pc == IF p = 0 THEN NoCtx ELSE BlockCtx(be, b, p)
  IN [live |-> LB(be, b, e + 1, hi, pc.live, pc.brk, pc.cnt, pc.h), brk |-> pc.brk, cnt |-> pc.cnt, h |-> pc.h]

BlockCtx(be, b, p) ==
  LET q == IF Clause(b[p]) THEN IfOf(b, p) ELSE p
      A == AfterCtx(be, b, q, StmtEnd(b, q))
  IN IF IsLoop(b[p])
     THEN LET Xe == IF HasElse(b, p) THEN LB(be, b, ElseLo(b, p), ElseHi(b, p), A.live, A.brk, A.cnt, A.h)
                    ELSE A.live
              Hd == LoopFix(be, b, p, A.live, Xe, Xe, A.h, 5)
          IN [live |-> IF be THEN Hd ELSE Xe, brk |-> A.live,
              cnt |-> IF be THEN Hd ELSE Xe, h |-> A.h]
     ELSE IF b[p].k = "try"
     THEN [A EXCEPT !.h = LB(be, b, ElseLo(b, p), ElseHi(b, p), A.live, A.brk, A.cnt, A.h)]
     ELSE A

\* variables certainly assigned by statements lo..hi when they complete
\* normally (everything, if they cannot complete normally)
RECURSIVE DW(_, _, _), DWStmt(_, _)
DW(b, lo, hi) ==
  IF lo > hi THEN {} ELSE DWStmt(b, lo) \cup DW(b, StmtEnd(b, lo) + 1, hi)
DWStmt(b, i) ==
  LET l == b[i]
      e == BlockEnd(b, i)
  IN CASE l.k \in {"asg", "aug"} -> {l.t}
       [] Abrupt(l) -> FlowVars
       [] (l.k = "if" /\ HasElse(b, i)) \/ l.k = "try" -> DW(b, i + 1, e) \cap DW(b, e + 2, BlockEnd(b, e + 1))
       [] OTHER -> {}

\* variables certainly bound when control reaches statement i
RECURSIVE DAat(_, _, _)
DAat(b, initB, i) ==
  LET p == Parent(b, i)
      first == p + 1
  IN IF i = first
     THEN IF p = 0 THEN initB \cup Conds
          ELSE IF Clause(b[p]) THEN DAat(b, initB, IfOf(b, p))
          ELSE DAat(b, initB, p) \cup (IF b[p].k = "for" /\ b[p].t # "" THEN {b[p].t} ELSE {})
     ELSE LET q == CHOOSE m \in first..(i-1) :
                     b[m].d = b[i].d /\ ~Clause(b[m]) /\ StmtEnd(b, m) = i - 1
          IN DAat(b, initB, q) \cup DW(b, q, i - 1)

Written(b, i, j) == {b[m].t : m \in {m2 \in i..j : b[m2].k \in {"asg", "aug", "for", "ifa", "wha"}}} \ {""}

-----------------------------------------------------------------------------
(* Statement extraction                                                    *)

EndsInRet(b, j) == b[j].k \in {"ret", "rtn"}

\* values the new function hands back: possibly written in the region and
\* possibly read afterwards before being rewritten
ResultsBE(be, b, i, j) ==
  IF EndsInRet(b, j) THEN {} ELSE Written(b, i, j) \cap AfterCtx(be, b, i, j).live
Results(b, i, j) == ResultsBE(BackEdges, b, i, j)

\* parameters: live on entry of the region when Results are live after it.
\* A result that the region writes only on some paths is live on entry too.
Params(b, i, j) == LB(BackEdges, b, i, j, Results(b, i, j), {}, {}, {})

\* read in the region before being certainly written there
LiveInOnly(b, i, j) == LB(BackEdges, b, i, j, {}, {}, {}, {})

StructOK(b, i, j) == IsRun(b, i, j) /\ NoEscape(b, i, j) /\ RetOK(b, i, j)
ParamsBound(b, initB, i, j) == Params(b, i, j) \subseteq DAat(b, initB, i)

StmtEnabled(b, initB, i, j) ==
  StructOK(b, i, j) /\ (RequireDA => ParamsBound(b, initB, i, j))

\* classification carried to the binding
RegionClass(b, initB, i, j) ==
  IF ~StructOK(b, i, j) THEN "struct"
  ELSE IF ~ParamsBound(b, initB, i, j) THEN "unbound" ELSE "ok"

-----------------------------------------------------------------------------
(* Textual shape of a region with respect to one variable.  These do not   *)
(* enter the oracle; they are carried to the binding to name the shape of  *)
(* an input on which the implementation fails.                             *)

\* how line l mentions v: "r" read, "w" written, "rw" read then written
Mention(l, v) ==
  LET rd == v \in l.r \/ (l.k = "aug" /\ l.t = v) \/ (l.k \in {"if", "whl", "ifa", "wha"} /\ l.c = v)
      wr == l.k \in {"asg", "aug", "for", "ifa", "wha"} /\ l.t = v
  IN IF rd /\ wr THEN "rw" ELSE IF rd THEN "r" ELSE IF wr THEN "w" ELSE "-"

FirstMentionLine(b, lo, hi, v) ==
  LET S == {m \in lo..hi : Mention(b[m], v) # "-"} IN IF S = {} THEN 0 ELSE Min(S)
FirstMention(b, lo, hi, v) ==
  LET m == FirstMentionLine(b, lo, hi, v) IN IF m = 0 THEN "-" ELSE Mention(b[m], v)

FirstReadLine(b, lo, hi, v) ==
  LET S == {m \in lo..hi : Mention(b[m], v) \in {"r", "rw"}} IN IF S = {} THEN 0 ELSE Min(S)

\* the loop-carried case as seen by a reader of the region: v is read before
\* it is written inside the region ("yes"), unless loops that lie inside the
\* region and end before that write are at least as many as the loops around
\* the region ("lost"); "no" when the region is not in a loop or writes first
LoopRead(b, i, j, v) ==
  LET fr == FirstReadLine(b, i, j, v)
      W  == {m \in i..j : fr # 0 /\ m >= fr /\ Mention(b[m], v) \in {"w", "rw"}}
      wl == IF W = {} THEN 0 ELSE Min(W)
      done == {h \in i..j : wl # 0 /\ h < wl /\ IsLoop(b[h]) /\ BlockEnd(b, h) < wl}
      around == LoopAncestors(b, i)
  IN IF around = {} \/ wl = 0 \/ FirstMention(b, i, j, v) = "w" THEN "no"
     ELSE IF Cardinality(around) > Cardinality(done) THEN "yes" ELSE "lost"

\* v is written inside a compound statement of the region after a compound
\* nested in that same statement has ended (a reader that forgets, at the end
\* of the inner one, that it is still inside the outer one takes that write
\* for unconditional)
WriteAfterInner(b, i, j, v) ==
  \E m \in i..j :
     /\ Mention(b[m], v) \in {"w", "rw"}
     /\ b[m].d > b[i].d
     /\ \E h \in (StmtAt(b, m, b[i].d + 1) + 1)..(m - 1) :
           ((IsHeader(b[h]) /\ ~Clause(b[h])) \/ Inline(b[h])) /\ StmtEnd(b, h) < m

\* v is written inside a try statement (try block or handler) of the region
WriteInTry(b, i, j, v) ==
  \E m \in i..j :
     /\ Mention(b[m], v) \in {"w", "rw"}
     /\ \E h \in i..(m - 1) : b[h].k \in {"try", "exc"} /\ BlockEnd(b, h) >= m

ShapeOf(b, i, j, v) ==
  LET fr == FirstReadLine(b, i, j, v)
      fw == FirstMentionLine(b, i, j, v)
      nested(m) == b[m].d > b[i].d \/ IsHeader(b[m]) \/ Inline(b[m])
  IN [v  |-> v,
      fi |-> FirstMention(b, i, j, v),                      \* first mention inside
      fin |-> IF fw = 0 THEN "-" ELSE IF nested(fw) THEN "nested" ELSE "top",   \* .. inside a compound statement?
      frn |-> IF fr = 0 THEN "-" ELSE IF nested(fr) THEN "nested" ELSE "top",   \* first read inside a compound statement?
      fa |-> FirstMention(b, j + 1, Len(b), v),             \* first mention after
      lr |-> LoopRead(b, i, j, v),
      nb |-> v \in ResultsBE(FALSE, b, i, j),               \* live after without back edges
      li |-> v \in LiveInOnly(b, i, j),
      dw |-> v \in DW(b, i, j),
      wai |-> WriteAfterInner(b, i, j, v),
      wtry |-> WriteInTry(b, i, j, v)]
\* (the binding adds "da": v is certainly bound on entry of the region)                             \* certainly written by the region

-----------------------------------------------------------------------------
(* The abstract result of a statement extraction                           *)

Dedent(s, by) == [k \in 1..Len(s) |-> [s[k] EXCEPT !.d = @ - by]]

HelperRecv(b, i, j, recvok) ==
  [params |-> Params(b, i, j), results |-> Results(b, i, j), ret |-> EndsInRet(b, j),
   body |-> Dedent(SubSeq(b, i, j), b[i].d), recvok |-> recvok]
HelperOf(b, i, j) == HelperRecv(b, i, j, TRUE)

CallLine(d) == [n |-> 0, d |-> d, k |-> "call", t |-> "", r |-> {}, c |-> ""]

MainAfter(b, i, j) ==
  SubSeq(b, 1, i - 1) \o <<CallLine(b[i].d)>> \o SubSeq(b, j + 1, Len(b))

-----------------------------------------------------------------------------
(* The same statements in sibling methods of a class (similar = TRUE).     *)
(* The body is the body of a method of kind hk of class K; K also has one  *)
(* sibling of every kind whose body is the same text.  The new function    *)
(* has the kind of its host: extracted from a normal method it is called   *)
(* through self, from a static or class method through the class name.     *)
(* A duplicate in a sibling may be replaced by the call only where the     *)
(* receiver is a name: self exists in normal methods only.                 *)

ClassKinds == {"method", "smethod", "cmethod"}
Receiver(hk) == IF hk = "method" THEN "self" ELSE "K"
ReceiverIsName(sk, recv) == recv = "K" \/ sk = "method"
SiblingRewritten(hk, sk) == RewriteAll \/ ReceiverIsName(sk, Receiver(hk))

\* observable of the sibling of kind sk after extracting i..j from a host of kind hk
SiblingRun(b, initB, i, j, hk, sk, inp) ==
  IF SiblingRewritten(hk, sk)
  THEN Run(MainAfter(b, i, j), HelperRecv(b, i, j, ReceiverIsName(sk, Receiver(hk))), initB, inp)
  ELSE Run(b, NoHelper, initB, inp)

-----------------------------------------------------------------------------
(* Expression extraction                                                   *)

\* sub-expressions of the tuple (n, (r..)) of a simple line
SubsOf(l) == {[sub |-> "whole", v |-> ""], [sub |-> "group", v |-> ""]}
             \cup {[sub |-> "name", v |-> v] : v \in l.r}
SubReads(l, s) == IF s.sub = "name" THEN {s.v} ELSE l.r

\* lines on which the same sub-expression text occurs
Matches(b, i, s) ==
  IF s.sub = "whole" THEN {i}
  ELSE IF s.sub = "group" THEN {m \in 1..Len(b) : HasTuple(b[m]) /\ b[m].r = b[i].r}
  ELSE {m \in 1..Len(b) : HasTuple(b[m]) /\ s.v \in b[m].r}

\* headers of the blocks around line m, outermost first (0 = the function)
RECURSIVE Chain(_, _)
Chain(b, m) == LET p == Parent(b, m) IN IF p = 0 THEN <<0>> ELSE Append(Chain(b, p), p)

\* number of leading blocks shared by all lines of M
CommonLen(b, M) ==
  Max({k \in 1..(MaxDepth + 1) :
         /\ Len(Chain(b, Min(M))) >= k
         /\ \A m \in M : Len(Chain(b, m)) >= k /\ Chain(b, m)[k] = Chain(b, Min(M))[k]})

\* where  x = <expr>  goes: before the statement of the innermost common
\* block that contains the first match
DefPoint(b, M) == StmtAt(b, Min(M), CommonLen(b, M))
LastStmtEnd(b, M) == StmtEnd(b, StmtAt(b, Max(M), CommonLen(b, M)))

WritesIn(b, lo, hi, R) == \E m \in lo..hi : b[m].k \in {"asg", "aug", "for", "ifa", "wha"} /\ b[m].t \in R


\* one definition may stand for all matches: nothing the expression reads is
\* rewritten between the definition and the last use, nor around a loop
\* that encloses the definition, and the reads are bound at the definition
OneDefOK(b, initB, i, s, M) ==
  LET D == DefPoint(b, M)
      R == SubReads(b[i], s)
      LA == LoopAncestors(b, D)
  IN /\ ~WritesIn(b, D, LastStmtEnd(b, M), R)
     /\ LA # {} => ~WritesIn(b, Min(LA) + 1, BlockEnd(b, Min(LA)), R)
     /\ R \subseteq DAat(b, initB, D)

\* "unbound": the original may raise at the expression itself or at the
\* definition point; outside the precondition
ExprClass(b, initB, i, s, via, sim) ==
  IF ~(SubReads(b[i], s) \subseteq DAat(b, initB, i)) THEN "unbound"
  ELSE IF via = "call" \/ ~sim THEN "ok"
  ELSE IF ~CheckStale \/ OneDefOK(b, initB, i, s, Matches(b, i, s)) THEN "ok"
  ELSE IF ~(SubReads(b[i], s) \subseteq DAat(b, initB, DefPoint(b, Matches(b, i, s)))) THEN "unbound"
  ELSE "stale"

WithXs(l, s, via) == [n |-> l.n, d |-> l.d, k |-> l.k, t |-> l.t, r |-> l.r, c |-> l.c,
                      xs |-> [sub |-> s.sub, v |-> s.v, via |-> via]]
XDefLine(l, s, d) == [n |-> l.n, d |-> d, k |-> "xdef", t |-> XVar, r |-> l.r, c |-> "",
                      xs |-> [sub |-> s.sub, v |-> s.v, via |-> "var"]]

ExprAfter(b, i, s, via, sim) ==
  LET M == IF sim THEN Matches(b, i, s) ELSE {i}
      D == IF sim THEN DefPoint(b, M) ELSE i
      marked == [m \in 1..Len(b) |-> IF m \in M THEN WithXs(b[m], s, via) ELSE b[m]]
  IN IF via = "call" THEN marked
     ELSE SubSeq(marked, 1, D - 1) \o <<XDefLine(b[i], s, b[D].d)>> \o SubSeq(marked, D, Len(b))

-----------------------------------------------------------------------------
(* Behaviour                                                               *)

NoExt == [kind |-> "none"]

Init ==
  /\ body = <<>>
  /\ init \in InitSets
  /\ phase = "build"
  /\ ext = NoExt

AddLine(sh, d) ==
  /\ phase = "build"
  /\ Len(body) < MaxLines
  /\ CanAppend(body, sh, d)
  /\ body' = Append(body, MkLine(sh, Len(body) + 1, d))
  /\ UNCHANGED <<init, phase, ext>>

Extract(i, j) ==
  /\ StmtOn
  /\ phase = "build"
  /\ Complete(body)
  /\ StmtEnabled(body, init, i, j)
  /\ ext' = [kind |-> "stmts", i |-> i, j |-> j]
  /\ phase' = "done"
  /\ UNCHANGED <<body, init>>

ExtractExpr(i, s, via, sim) ==
  /\ ExprOn
  /\ phase = "build"
  /\ Complete(body)
  /\ Simple(body[i])
  /\ s \in SubsOf(body[i])
  /\ ExprClass(body, init, i, s, via, sim) = "ok"
  /\ ext' = [kind |-> "expr", i |-> i, s |-> s, via |-> via, sim |-> sim]
  /\ phase' = "done"
  /\ UNCHANGED <<body, init>>

ExtractSim(i, j, hk) ==
  /\ ClassOn
  /\ phase = "build"
  /\ Complete(body)
  /\ StmtEnabled(body, init, i, j)
  /\ ext' = [kind |-> "class", i |-> i, j |-> j, hk |-> hk]
  /\ phase' = "done"
  /\ UNCHANGED <<body, init>>

Next ==
  \/ \E sh \in Shapes, d \in 0..MaxDepth : AddLine(sh, d)
  \/ \E i \in 1..Len(body), j \in 1..Len(body) : Extract(i, j)
  \/ \E i \in 1..Len(body), j \in 1..Len(body), hk \in ClassKinds : ExtractSim(i, j, hk)
  \/ \E i \in 1..Len(body), sub \in {"whole", "group", "name"}, v \in (Vars \cup {""}),
        via \in {"var", "call"}, sim \in BOOLEAN :
        ExtractExpr(i, [sub |-> sub, v |-> v], via, sim)

Spec == Init /\ [][Next]_vars

-----------------------------------------------------------------------------
(* Properties checked on the model                                         *)

TypeOK ==
  /\ phase \in {"build", "done"}
  /\ init \subseteq Vars
  /\ Len(body) <= MaxLines
  /\ \A k \in 1..Len(body) : body[k].n = k /\ body[k].d \in 0..MaxDepth

\* every prefix that was built can be read as indentation-structured code
WellFormed ==
  \A k \in 1..Len(body) :
     /\ k = 1 => body[k].d = 0
     /\ k > 1 => IF IsHeader(body[k-1]) THEN body[k].d = body[k-1].d + 1
                 ELSE body[k].d <= body[k-1].d

\* the abstract statement extraction preserves the observable for all inputs
ExtractSound ==
  (phase = "done" /\ ext.kind = "stmts") =>
     LET H == HelperOf(body, ext.i, ext.j)
         M == MainAfter(body, ext.i, ext.j)
     IN \A inp \in Valuations : Run(M, H, init, inp) = Run(body, NoHelper, init, inp)

\* replacing the duplicates in the siblings where the receiver is a name
\* (and only there) preserves what every method of the class does
SiblingSound ==
  (phase = "done" /\ ext.kind = "class") =>
     \A sk \in ClassKinds : \A inp \in Valuations :
        SiblingRun(body, init, ext.i, ext.j, ext.hk, sk, inp) = Run(body, NoHelper, init, inp)

\* the new function is closed: parameters are bound at the call
CallArgsBound ==
  (phase = "done" /\ ext.kind = "stmts" /\ RequireDA) =>
     Params(body, ext.i, ext.j) \subseteq DAat(body, init, ext.i)

\* the abstract expression extraction preserves the observable for all inputs
ExprSound ==
  (phase = "done" /\ ext.kind = "expr") =>
     LET B == ExprAfter(body, ext.i, ext.s, ext.via, ext.sim)
     IN \A inp \in Valuations : Run(B, NoHelper, init, inp) = Run(body, NoHelper, init, inp)

\* definite assignment is sound: a variable in DAat is bound whenever a
\* simple line is reached (checked through the interpreter: a program whose
\* every read is definitely assigned never raises)
AllReadsDA(b, initB) ==
  \A m \in 1..Len(b) :
     ~Clause(b[m]) =>
       ((b[m].r \cup (IF b[m].k = "aug" THEN {b[m].t} ELSE {})) \subseteq DAat(b, initB, m))
DefiniteAssignmentSound ==
  (phase = "build" /\ Complete(body) /\ AllReadsDA(body, init)) =>
     \A inp \in Valuations : ~Run(body, NoHelper, init, inp).exc
=============================================================================
