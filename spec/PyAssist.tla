------------------------------ MODULE PyAssist ------------------------------
(***************************************************************************)
(* C20 - completion and definition lookup are sound at every cursor        *)
(* position.                                                               *)
(*                                                                         *)
(* The abstract state is a small Python module written as a sequence of    *)
(* lines [d, k, n, u]: indentation depth, kind and up to two identifiers.  *)
(*                                                                         *)
(*    bind   n = 1            def    def n(u):   (u = "" : no parameter)   *)
(*    bindu  n = u            class  class n:                              *)
(*    use    print(u)         attr   print(n.u)                            *)
(*    ret    return u         pass   pass                                  *)
(*                                                                         *)
(* A def / class line opens a scope that lasts while the following lines   *)
(* are deeper.  On such a program the module defines, as Python does:      *)
(*   Bound(s)           names bound in scope s (assignment targets, def    *)
(*                      and class names, the parameter of a def)           *)
(*   Resolve(s, n)      the scope a use of n in s refers to: s itself, or  *)
(*                      the nearest enclosing non-class scope binding n    *)
(*   Visible(s, i, later)  the names that can be referred to on line i of  *)
(*                      scope s: its own names (with later = FALSE only    *)
(*                      those first bound on an earlier line), then the    *)
(*                      names of every enclosing scope except class scopes *)
(*   Must(s, i, later)  Visible without outer names shadowed by a local    *)
(*                      of s that is bound only later (what HAS to be      *)
(*                      offered; Visible is what MAY be offered)           *)
(*   Complete(i, later, p) Visible filtered by the typed prefix p          *)
(*   DefLines / DefLine    where the binding an identifier refers to is    *)
(*                      defined                                            *)
(*   Attrs(i)           for  print(n.u)  the names of class n              *)
(* TLC checks VisibleIsResolvable (completion offers exactly what          *)
(* resolution can find), LaterLocalsOnlyHides, CutOnlyShrinks (blanking    *)
(* the line under the cursor never makes a name appear - this is what      *)
(* justifies the oracle for truncated lines), DefLineBinds, CompleteSound. *)
(***************************************************************************)
EXTENDS Integers, Sequences, FiniteSets, TLC

CONSTANTS Names,      \* the identifiers programs may use (strings)
          Chars,      \* Chars[n]: the characters of name n, e.g. <<"v", "a">>
          MaxLines,
          MaxDepth,
          HOrder,     \* the helper module h.py defines the names of HOrder, one per line, in this order ...
          HOffsets,   \* ... after hoff \in HOffsets other lines
          Kinds,      \* the line kinds programs may use (a focus for simulation runs)
          Preludes    \* the programs start with one of these line sequences ({<<>>}: anything)

VARIABLES lines,
          hoff        \* number of lines of h.py before its first definition

\* the line of h.py on which name n is defined
HLine(n) == hoff + (CHOOSE k \in DOMAIN HOrder : HOrder[k] = n)

Line(d, k, n, u) == [d |-> d, k |-> k, n |-> n, u |-> u]
Header(l) == l.k \in {"def", "class"}          \* opens a scope
Opens(l) == l.k \in {"def", "class", "try", "if", "els"}     \* must be followed by a deeper line
Block(l) == l.k \in {"try", "if", "els"}       \* opens a block that is not a scope

AllLinesAt(d) ==
  {Line(d, "bind", n, "") : n \in Names}
  \cup {Line(d, "bindu", n, u) : n \in Names, u \in Names}
  \cup {Line(d, "use", "", u) : u \in Names}
  \cup {Line(d, "def", n, u) : n \in Names, u \in Names \cup {""}}
  \cup {Line(d, "class", n, "") : n \in Names}
  \cup {Line(d, "attr", n, u) : n \in Names, u \in Names}
  \cup {Line(d, "ret", "", u) : u \in Names}
  \cup {Line(d, "pass", "", "")}
  \cup {Line(d, "imp", n, "") : n \in Names}                    \* from h import n
  \cup {Line(d, "kw", n, u) : n \in Names, u \in Names}          \* n(u=1)
  \cup {Line(d, "try", "", ""), Line(d, "fin", "", "")}          \* try:   /   finally: pass
  \cup {Line(d, "if", "", ""), Line(d, "els", "", "")}           \* if 1:  /   else:
  \cup {Line(d, "tup", n, u) : n \in Names, u \in Names}         \* n, u   (an expression without brackets)
LinesAt(d) == {l \in AllLinesAt(d) : l.k \in Kinds}

Max(S) == CHOOSE x \in S : \A y \in S : y <= x
Min(S) == CHOOSE x \in S : \A y \in S : x <= y

(* ---------------- scope structure of a line sequence ---------------- *)
\* the header line whose scope line i sits in directly; 0 = the module
\* (a try: line opens a block, not a scope)
RECURSIVE Encl(_, _)
Encl(ls, i) ==
  IF ls[i].d = 0 THEN 0
  ELSE LET j == Max({k \in 1..(i - 1) : ls[k].d < ls[i].d})
       IN IF Block(ls[j]) THEN Encl(ls, j) ELSE j
ScopeKind(ls, s) == IF s = 0 THEN "module" ELSE ls[s].k
Parent(ls, s) == Encl(ls, s)
LinesOf(ls, s) == {i \in 1..Len(ls) : Encl(ls, i) = s}
Params(ls, s) == IF s > 0 /\ ls[s].k = "def" /\ ls[s].u # "" THEN {ls[s].u} ELSE {}
BindsAt(ls, i) == IF ls[i].k \in {"bind", "bindu", "def", "class", "imp"} THEN {ls[i].n} ELSE {}
Bound(ls, s) == UNION {BindsAt(ls, i) : i \in LinesOf(ls, s)} \cup Params(ls, s)
\* the lines on which n is bound in scope s (a parameter: the def line)
BindLines(ls, s, n) ==
  {i \in LinesOf(ls, s) : n \in BindsAt(ls, i)} \cup (IF n \in Params(ls, s) THEN {s} ELSE {})
FirstLine(ls, s, n) == Min(BindLines(ls, s, n))

\* the innermost try: whose block is still open at the end of ls (0: none)
OpenTry(ls) ==
  LET open == {j \in 1..Len(ls) : ls[j].k = "try" /\ \A k \in (j + 1)..Len(ls) : ls[k].d > ls[j].d}
  IN IF open = {} THEN 0 ELSE Max(open)

\* well-formed extension of a program by one line
CanAppend(ls, l) ==
  /\ Len(ls) < MaxLines
  /\ l.d <= MaxDepth
  /\ Opens(l) => l.d < MaxDepth
  /\ IF ls = <<>> THEN l.d = 0
     ELSE IF Opens(ls[Len(ls)]) THEN l.d = ls[Len(ls)].d + 1 ELSE l.d <= ls[Len(ls)].d
  \* a try: block is closed by  finally: pass  as soon as the indentation comes back to it
  /\ LET t == OpenTry(ls)
     IN IF t # 0 /\ l.d <= ls[t].d THEN l = Line(ls[t].d, "fin", "", "") ELSE l.k # "fin"
  \* else: only directly after the body of an if 1: of the same depth
  /\ l.k = "els" => /\ ls # <<>> /\ ls[Len(ls)].d > l.d
                    /\ LET j == Max({k \in 1..Len(ls) : ls[k].d <= l.d}) IN ls[j].k = "if" /\ ls[j].d = l.d
  \* n(u=1) only where some  def n(u)  has been written above
  /\ l.k = "kw" => \E j \in 1..Len(ls) : ls[j].k = "def" /\ ls[j].n = l.n /\ ls[j].u = l.u
  /\ l.k = "ret" => LET ls2 == Append(ls, l) IN ScopeKind(ls2, Encl(ls2, Len(ls2))) = "def"
  \* print(n.u) only where some class n has been written above (whether n then
  \* denotes that class is decided by AttrClass)
  /\ l.k = "attr" => \E j \in 1..Len(ls) : ls[j].k = "class" /\ ls[j].n = l.n
IsProgram(ls) == ls # <<>> /\ ~Opens(ls[Len(ls)]) /\ OpenTry(ls) = 0

(* ---------------- resolution and visibility ---------------- *)
NoScope == 0 - 1
RECURSIVE ResolveUp(_, _, _)
ResolveUp(ls, s, n) ==
  IF s = 0 THEN NoScope
  ELSE LET p == Parent(ls, s)
       IN IF ScopeKind(ls, p) # "class" /\ n \in Bound(ls, p) THEN p ELSE ResolveUp(ls, p, n)
Resolve(ls, s, n) == IF n \in Bound(ls, s) THEN s ELSE ResolveUp(ls, s, n)

RECURSIVE Up(_, _)
Up(ls, s) ==
  IF s = 0 THEN {}
  ELSE LET p == Parent(ls, s)
       IN (IF ScopeKind(ls, p) = "class" THEN {} ELSE Bound(ls, p)) \cup Up(ls, p)
Locals(ls, s, i, later) ==
  IF later THEN Bound(ls, s) ELSE {n \in Bound(ls, s) : FirstLine(ls, s, n) < i}
Visible(ls, s, i, later) == Locals(ls, s, i, later) \cup Up(ls, s)
VisibleAt(ls, i, later) == Visible(ls, Encl(ls, i), i, later)
\* Visible is what MAY be offered.  A name that scope s binds only on this or a
\* later line is, in Python, still the (unbound) local of s - the outer binding
\* of the same name cannot be reached from s.  Offering the outer one is
\* harmless but not required: Must is what HAS to be offered.
Must(ls, s, i, later) == Visible(ls, s, i, later) \ (Bound(ls, s) \ Locals(ls, s, i, later))
MustAt(ls, i, later) == Must(ls, Encl(ls, i), i, later)

IsPrefix(p, w) == Len(p) <= Len(w) /\ SubSeq(w, 1, Len(p)) = p
Prefixes(w) == {SubSeq(w, 1, k) : k \in 0..Len(w)}
AllPrefixes == UNION {Prefixes(Chars[n]) : n \in Names}
Complete(ls, i, later, p) == {n \in VisibleAt(ls, i, later) : IsPrefix(p, Chars[n])}

\* the program with line i blanked (what is left when the line under the
\* cursor is incomplete and has to be ignored); only for non-header lines
Cut(ls, i) == [ls EXCEPT ![i] = Line(ls[i].d, "pass", "", "")]

(* ---------------- identifiers and their definitions ---------------- *)
\* identifier occurrences: [line, role, name] with role "n" (first identifier
\* of the line) or "u" (second)
Idents(ls) ==
  {[line |-> i, role |-> "n", name |-> ls[i].n] : i \in {j \in 1..Len(ls) : ls[j].n # ""}}
  \cup {[line |-> i, role |-> "u", name |-> ls[i].u] : i \in {j \in 1..Len(ls) : ls[j].u # ""}}

\* the class scope the first identifier of an attr line denotes, if that is
\* determined: the name resolves, is bound exactly once there, by a class line
AttrClass(ls, i) ==
  LET r == Resolve(ls, Encl(ls, i), ls[i].n)
  IN IF r = NoScope THEN NoScope
     ELSE LET bl == BindLines(ls, r, ls[i].n)
          IN IF Cardinality(bl) = 1 /\ (\E c \in bl : c > 0 /\ ls[c].k = "class" /\ c # r
                                                       /\ ls[c].n = ls[i].n /\ c < i)
                \* in a class body a name that the class binds later is looked up at run
                \* time in the class first, then globally: not determined statically
                /\ ~(ScopeKind(ls, Encl(ls, i)) = "class" /\ r = Encl(ls, i) /\ FirstLine(ls, r, ls[i].n) > i)
             THEN CHOOSE c \in bl : TRUE ELSE NoScope
Attrs(ls, i) == IF ls[i].k = "attr" /\ AttrClass(ls, i) # NoScope THEN Bound(ls, AttrClass(ls, i)) ELSE {}

\* the function whose parameter the keyword of  n(u=1)  on line i names, if determined: n resolves,
\* is bound exactly once there, by  def n(u)
KwFunc(ls, i) ==
  LET r == Resolve(ls, Encl(ls, i), ls[i].n)
  IN IF r = NoScope THEN NoScope
     ELSE LET bl == BindLines(ls, r, ls[i].n)
          IN IF Cardinality(bl) = 1 /\ (\E c \in bl : c > 0 /\ c # r /\ ls[c].k = "def" /\ ls[c].n = ls[i].n
                                                       /\ ls[c].u = ls[i].u)
                /\ ~(ScopeKind(ls, Encl(ls, i)) = "class" /\ r = Encl(ls, i) /\ FirstLine(ls, r, ls[i].n) > i)
             THEN CHOOSE c \in bl : TRUE ELSE NoScope

\* where an identifier occurrence refers to: scope and lines of the binding
RefScope(ls, id) ==
  LET i == id.line
      l == ls[i]
  IN IF id.role = "n" /\ l.k \in {"bind", "bindu", "def", "class", "imp"} THEN Encl(ls, i)   \* a binding occurrence
     ELSE IF id.role = "u" /\ l.k = "def" THEN i                                        \* the parameter
     ELSE IF id.role = "u" /\ l.k = "kw" THEN KwFunc(ls, i)                              \* keyword argument
     ELSE IF id.role = "u" /\ l.k = "attr"
       THEN (IF AttrClass(ls, i) # NoScope /\ l.u \in Bound(ls, AttrClass(ls, i)) THEN AttrClass(ls, i) ELSE NoScope)
     ELSE Resolve(ls, Encl(ls, i), id.name)
\* determined: Python's static rules fix the binding
Determined(ls, id) ==
  LET i == id.line
      s == Encl(ls, i)
      r == RefScope(ls, id)
  IN /\ r # NoScope
     /\ ~(ScopeKind(ls, s) = "class" /\ r = s /\ FirstLine(ls, r, id.name) > i
          /\ ~(id.role = "n" /\ ls[i].k \in {"bind", "bindu", "def", "class", "imp"}))
     \* a name that the scope both imports and binds otherwise has no single home
     /\ LET bl == BindLines(ls, r, id.name)
            imps == {b \in bl : b > 0 /\ ls[b].k = "imp" /\ ls[b].n = id.name}
        IN imps = {} \/ imps = bl
\* the binding is an import: the definition is in h.py, on line HLine(name)
Imported(ls, id) ==
  \E b \in BindLines(ls, RefScope(ls, id), id.name) : b > 0 /\ ls[b].k = "imp" /\ ls[b].n = id.name
DefLines(ls, id) == BindLines(ls, RefScope(ls, id), id.name)
DefLine(ls, id) == Min(DefLines(ls, id))

(* ---------------- state machine: programs grow line by line ---------------- *)
Init == lines \in Preludes /\ hoff \in HOffsets
\* (the quantifiers outermost: TLC then treats every (d, l) as an action of its own, and simulation
\* checks - and exports - only the states it actually visits)
Next == \E d \in 0..MaxDepth : \E l \in LinesAt(d) :
           CanAppend(lines, l) /\ lines' = Append(lines, l) /\ UNCHANGED hoff
Spec == Init /\ [][Next]_<<lines, hoff>>

(* ---------------- what TLC checks ---------------- *)
TypeOK == Len(lines) <= MaxLines /\ \A i \in 1..Len(lines) : lines[i].d \in 0..MaxDepth

\* completion offers exactly the names that resolution can find
VisibleIsResolvable ==
  \A i \in 1..Len(lines) : \A n \in Names :
     (n \in VisibleAt(lines, i, TRUE)) <=> (Resolve(lines, Encl(lines, i), n) # NoScope)

\* later_locals = FALSE hides only names of the same scope first bound on this or a later line
LaterLocalsOnlyHides ==
  \A i \in 1..Len(lines) :
     LET s == Encl(lines, i)
     IN /\ VisibleAt(lines, i, FALSE) \subseteq VisibleAt(lines, i, TRUE)
        /\ \A n \in VisibleAt(lines, i, TRUE) \ VisibleAt(lines, i, FALSE) :
              n \in Bound(lines, s) /\ FirstLine(lines, s, n) >= i /\ Resolve(lines, s, n) = s

\* ignoring the (non-header) line under the cursor never makes a name appear,
\* and takes away at most the name that line binds; what has to be offered
\* without the line may be offered with it
CutOnlyShrinks ==
  \A i \in 1..Len(lines) : ~(Opens(lines[i]) \/ lines[i].k = "fin") =>
     \A later \in BOOLEAN :
        /\ VisibleAt(Cut(lines, i), i, later) \subseteq VisibleAt(lines, i, later)
        /\ VisibleAt(lines, i, later) \ VisibleAt(Cut(lines, i), i, later) \subseteq BindsAt(lines, i)
        /\ MustAt(Cut(lines, i), i, later) \subseteq VisibleAt(lines, i, later)

\* what has to be offered may be offered; with later_locals both coincide; a
\* required name really resolves, and not to a binding that is still to come
MustWithinVisible ==
  \A i \in 1..Len(lines) :
     LET s == Encl(lines, i)
     IN /\ MustAt(lines, i, TRUE) = VisibleAt(lines, i, TRUE)
        /\ MustAt(lines, i, FALSE) \subseteq VisibleAt(lines, i, FALSE)
        /\ \A n \in MustAt(lines, i, FALSE) :
              LET r == Resolve(lines, s, n) IN r # NoScope /\ (r = s => FirstLine(lines, s, n) < i)

\* a determined identifier leads to lines that bind that very name in a scope
\* enclosing (or equal to) the one of the identifier - or, for an attribute,
\* in the class
DefLineBinds ==
  \A id \in Idents(lines) : Determined(lines, id) =>
     /\ DefLines(lines, id) # {}
     /\ DefLine(lines, id) \in DefLines(lines, id)
     /\ \A b \in DefLines(lines, id) :
          \/ (b > 0 /\ id.name \in BindsAt(lines, b))
          \/ (b > 0 /\ lines[b].k = "def" /\ lines[b].u = id.name)

\* completions are visible names that extend the prefix, and all of them
CompleteSound ==
  \A i \in 1..Len(lines) : \A later \in BOOLEAN :
     /\ Complete(lines, i, later, <<>>) = VisibleAt(lines, i, later)
     /\ \A p \in AllPrefixes :
          /\ Complete(lines, i, later, p) \subseteq VisibleAt(lines, i, later)
          /\ \A n \in VisibleAt(lines, i, later) : (n \in Complete(lines, i, later, p)) <=> IsPrefix(p, Chars[n])

=============================================================================
