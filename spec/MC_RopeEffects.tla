--------------------------- MODULE MC_RopeEffects ---------------------------
EXTENDS RopeEffects
MCFiles == {"p1", "p2", "ig", "out"}
MCRegion == [f \in MCFiles |-> CASE f \in {"p1", "p2"} -> "project" [] f = "ig" -> "ignored" [] OTHER -> "outside"]
=============================================================================
