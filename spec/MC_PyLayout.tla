---------------------------- MODULE MC_PyLayout ----------------------------
EXTENDS PyLayout, Json

\* One JSON line per decorated tree: the tokens, the layout decisions and, for
\* every node, first/last token (own and with its parentheses): the expected
\* regions.  defkw: for decorated def / class, the index of the def / class
\* keyword token (where the interpreter says the statement starts).
TokStrs(r) == [i \in DOMAIN r.toks |-> <<r.toks[i].s, r.toks[i].d>>]
DefKw ==
  { <<s.p, LET t == At(tree, s.p)
               nd == NDecos(t, 1)
           IN IF nd = 0 THEN s.a ELSE SpanOf(s.p \o <<nd>>).pb + 2>> :
      s \in {z \in lay.sp : At(tree, z.p).k \in {"FunctionDef", "ClassDef"}} }
Behaviour ==
  [cn |-> names.cn, en |-> names.en, tree |-> tree, hole |-> hole, toks |-> TokStrs(lay), spans |-> lay.sp, gaps |-> gaps, style |-> style,
   rp |-> deco.rp, tc |-> deco.tc, defkw |-> DefKw]
Export == Done => PrintT(<<"BEH", ToJson(Behaviour)>>)
=============================================================================
