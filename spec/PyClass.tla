------------------------------- MODULE PyClass -------------------------------
(***************************************************************************)
(* C17 - the class-level refactorings preserve behaviour or are refused.   *)
(*                                                                         *)
(* The abstract state is a small two-module Python project:                *)
(*   module a : class C (fields f, g; method m), optionally class D that   *)
(*              holds a C in field h and has a decoy field f, global       *)
(*              functions, then client statements                          *)
(*   module b : imports a ("import a" or "from a import ..."), then its    *)
(*              own client statements                                      *)
(* Client statements are drawn from pools of usage shapes (read, write,    *)
(* augmented write, attribute chain, constructor call, method call,        *)
(* local-then-read ...), one pool per refactoring family.                  *)
(*                                                                         *)
(* Three things are defined on programs, all in this module:               *)
(*   Obs(P)     what each entry module prints - a store semantics          *)
(*              (Eval / Exec / CallF) for the fragment;                    *)
(*   Toks(P,m)  the concrete token sequence of module m, every identifier  *)
(*              token tagged with what it denotes (field C.f, class C,     *)
(*              local C.m.t ...) - the harness only joins tokens, and      *)
(*              refactoring targets are token indices;                     *)
(*   Refactor(q,P)  the abstract effect of the five refactorings.          *)
(* TLC checks ObsPreserved (and the counting clauses for Encapsulate) for  *)
(* every program x request.  With Guards = FALSE the naive variants of the *)
(* transformations are used (LocalToField on a name the class already      *)
(* has, UseFunction duplicating an impure argument or dropping a live      *)
(* temporary) and ObsPreserved must fail: that is the sensitivity run.     *)
(***************************************************************************)
EXTENDS Integers, Sequences, FiniteSets, TLC

CONSTANTS Families,   \* subset of {"enc","fac","mo","ltf","uf","mm"}  (mm: MoveMethod, run by the C05 check)
          MaxA,       \* client snippets in module a
          MaxB,       \* client snippets in module b
          MaxTotal,   \* client snippets in total
          Features,   \* optional shapes: "comment","semi","chain","augprec","collide","impure","livetemp"
          Guards      \* TRUE: refactorings as they must be; FALSE: naive variants

VARIABLES fam,      \* family of the program = refactoring that will be requested
          variant,  \* index of the class/function variant of the family
          imp,      \* "import" | "from": how module b refers to module a
          sa, sb,   \* Seq(pool index): client snippets of modules a and b
          phase,    \* "build" | "done"
          req,      \* the refactoring request (record), NoReq while building
          res       \* what the spec derives for the request (see Derive)

vars == <<fam, variant, imp, sa, sb, phase, req, res>>

(* ------------------------------------------------------------------ *)
(* Abstract syntax: uniform node shapes so that structural equality   *)
(* between arbitrary nodes is defined.                                *)
(* ------------------------------------------------------------------ *)
E(k, s, n, xs) == [k |-> k, s |-> s, n |-> n, xs |-> xs]
I(n)        == E("int", "", n, <<>>)
Str(t)      == E("str", t, 0, <<>>)          \* the string literal "t"
Flt(n)      == E("flt", "", n, <<>>)         \* the float literal n.0 (equal to, but not the same constant as, n)
V(x)        == E("var", x, 0, <<>>)
K(c)        == E("cls", c, 0, <<>>)          \* reference to a class of module a
F(f)        == E("fref", f, 0, <<>>)         \* reference to a global function of module a
A(r, f)     == E("attr", f, 0, <<r>>)        \* r.f
B(op, x, y) == E("bin", op, 0, <<x, y>>)     \* x op y
Call(fn, args) == E("call", "", 0, <<fn>> \o args)     \* fn(args)
MC(r, m, args) == E("mcall", m, 0, <<r>> \o args)      \* r.m(args)
Is(r, c)    == E("isinst", c, 0, <<r>>)      \* isinstance(r, C)
KW(n, e)    == E("kwarg", n, 0, <<e>>)       \* n=e  as an argument of a call (the pools only use it where n is
                                             \* the parameter at that position, so binding is positional)

S(k, s, t, xs, d) == [k |-> k, s |-> s, t |-> t, xs |-> xs, d |-> d, ps |-> <<>>, b |-> <<>>]
\* def name(params): body   as a statement of a function body (a nested function).  The fragment's
\* nested functions are closed: they use their own parameters and locals only.
DefS(name, params, body) == [S("def", name, "", <<>>, "") EXCEPT !.ps = params, !.b = body]
Asg(x, e)          == S("assign", x, "", <<e>>, "")        \* x = e
Set(r, f, e)       == S("setattr", f, "", <<r, e>>, "")    \* r.f = e
Aug(r, f, op, e)   == S("augattr", f, op, <<r, e>>, "")    \* r.f op= e
AugV(x, op, e)     == S("augvar", x, op, <<e>>, "")        \* x op= e
Pr(args)           == S("print", "", "", args, "")         \* print(args)
Ex(e)              == S("expr", "", "", <<e>>, "")         \* e
Ret(e)             == S("return", "", "", <<e>>, "")       \* return e
Ch2(t1, t2, e)     == S("chain2", "", "", <<t1, t2, e>>, "")   \* t1 = t2 = e  (targets: attr or var nodes)
WithD(s, d)        == [s EXCEPT !.d = d]     \* decoration: "comment" (trailing comment) | "semi" (joined to next by ;)
                                             \* | "wrap" (value in brackets over several physical lines)
                                             \* | "bslash" (value on a backslash continuation line)

Def(kind, name, params, body, methods) ==
  [kind |-> kind, name |-> name, params |-> params, body |-> body, methods |-> methods,
   one |-> FALSE,     \* one: written on one line,  def f(x): <the single statement>
   blk |-> FALSE]     \* blk: the definition sits in a module-level  if 1: ... else: zz = 1  block (its scope's
                      \* parent is still the module; the else branch never runs)
OneLine(f) == [f EXCEPT !.one = TRUE]
InBlock(d) == [d EXCEPT !.blk = TRUE]
Fn(name, params, body)     == Def("func", name, params, body, <<>>)
Static(name, params, body) == Def("static", name, params, body, <<>>)
Class(name, methods)       == Def("class", name, <<>>, <<>>, methods)

\* a program
\* (bdefs: definitions of module b, after its import line; only the MoveMethod family uses them)
Prog(defs, a, b, im, bnames) ==
  [defs |-> defs, a |-> a, b |-> b, imp |-> im, bnames |-> bnames, bdefs |-> <<>>]
AllDefs(P) == P.defs \o P.bdefs

(* ------------------------------------------------------------------ *)
(* Small helpers                                                      *)
(* ------------------------------------------------------------------ *)
Range(s) == {s[i] : i \in DOMAIN s}
RECURSIVE Flat(_)
Flat(ss) == IF ss = <<>> THEN <<>> ELSE Head(ss) \o Flat(Tail(ss))
RECURSIVE SumSeq(_)
SumSeq(s) == IF s = <<>> THEN 0 ELSE Head(s) + SumSeq(Tail(s))
IndexOf(s, x) == CHOOSE i \in DOMAIN s : s[i] = x
HasDef(P, name) == \E i \in DOMAIN AllDefs(P) : AllDefs(P)[i].name = name
DefOf(P, name) == AllDefs(P)[CHOOSE i \in DOMAIN AllDefs(P) : AllDefs(P)[i].name = name]
HasMethod(P, c, m) == HasDef(P, c) /\ \E i \in DOMAIN DefOf(P, c).methods : DefOf(P, c).methods[i].name = m
Method(P, c, m) == LET ms == DefOf(P, c).methods IN ms[CHOOSE i \in DOMAIN ms : ms[i].name = m]
\* the bodies of all functions and methods; the nested function called name (searched one level deep)
Bodies(P) == UNION {IF P.defs[i].kind = "class" THEN {P.defs[i].methods[j].body : j \in DOMAIN P.defs[i].methods}
                    ELSE {P.defs[i].body} : i \in DOMAIN P.defs}
NestedDefs(body) == {body[i] : i \in {j \in DOMAIN body : body[j].k = "def"}}
HasLocalFn(P, name) == \E b \in Bodies(P) : \E st \in NestedDefs(b) : st.s = name
LocalFn(P, name) ==
  LET st == CHOOSE st \in UNION {NestedDefs(b) : b \in Bodies(P)} : st.s = name
  IN [kind |-> "func", name |-> name, params |-> st.ps, body |-> st.b, methods |-> <<>>, one |-> FALSE, blk |-> FALSE]

(* ------------------------------------------------------------------ *)
(* Static types by naming convention of the pools (only used to tag   *)
(* tokens and to direct Encapsulate; never by the evaluator)          *)
(* ------------------------------------------------------------------ *)
VarTy(x) == CASE x \in {"o", "q"} -> "C" [] x = "p" -> "D" [] x = "k" -> "class" [] OTHER -> "int"
FieldTy(c, f) == IF c = "D" /\ f = "h" THEN "C" ELSE "int"
RetTy(n) == IF n \in {"clone", "mk"} THEN "C" ELSE "int"
SelfNames == {"self", "this"}
RECURSIVE TyE(_, _)
TyE(e, self) ==
  CASE e.k = "var"   -> IF e.s \in SelfNames THEN self ELSE VarTy(e.s)
    [] e.k = "attr"  -> FieldTy(TyE(e.xs[1], self), e.s)
    [] e.k = "cls"   -> "class"
    [] e.k = "call"  -> IF e.xs[1].k = "cls" THEN e.xs[1].s
                        ELSE IF e.xs[1].k = "fref" THEN RetTy(e.xs[1].s)
                        ELSE IF e.xs[1].k = "var" /\ VarTy(e.xs[1].s) = "class" THEN "C" ELSE "int"
    [] e.k = "mcall" -> RetTy(e.s)
    [] OTHER -> "int"

(* ------------------------------------------------------------------ *)
(* Store semantics.  Values are uniform records.                      *)
(* ------------------------------------------------------------------ *)
Val(t, n, s) == [t |-> t, n |-> n, s |-> s]
IntV(n)  == Val("int", n, "")
FloatV(n) == Val("float", n, "")         \* the float n.0 (the fragment only produces integral floats)
RefV(i)  == Val("ref", i, "")
NoneV    == Val("none", 0, "")
ClsV(c)  == Val("cls", 0, c)
FunV(f)  == Val("fun", 0, f)
BoolV(b) == Val("bool", IF b THEN 1 ELSE 0, "")
ErrV     == Val("err", 0, "")
StrV(t)  == Val("str", 0, t)
LFunV(f) == Val("lfun", 0, f)            \* a nested function, by name (names of nested functions are unique)

EmptyD == [x \in {} |-> NoneV]
Bind(d, x, v) == [y \in DOMAIN d \cup {x} |-> IF y = x THEN v ELSE d[y]]
AnyErr(vs) == \E i \in DOMAIN vs : vs[i].t = "err"
R(v, h, out) == [v |-> v, h |-> h, out |-> out]
X(env, h, out, ret, stop) == [env |-> env, h |-> h, out |-> out, ret |-> ret, stop |-> stop]

Arith(op, x, y) ==
  IF x.t \in {"int", "float"} /\ y.t \in {"int", "float"}
  THEN LET n == IF op = "//" THEN (IF y.n > 0 THEN x.n \div y.n ELSE 0)
                ELSE CASE op = "+" -> x.n + y.n [] op = "*" -> x.n * y.n [] op = "-" -> x.n - y.n [] OTHER -> 0
       IN IF op = "//" /\ y.n <= 0 THEN ErrV
          ELSE IF x.t = "float" \/ y.t = "float" THEN FloatV(n) ELSE IntV(n)   \* int op float is a float
  ELSE ErrV

RECURSIVE Eval(_, _, _, _, _), EvalList(_, _, _, _, _, _), Exec(_, _, _, _, _, _), CallF(_, _, _, _, _)

EvalList(P, es, i, env, h, out) ==
  IF i > Len(es) THEN [vs |-> <<>>, h |-> h, out |-> out]
  ELSE LET r == Eval(P, es[i], env, h, out)
           rest == EvalList(P, es, i + 1, env, r.h, r.out)
       IN [vs |-> <<r.v>> \o rest.vs, h |-> rest.h, out |-> rest.out]

\* the attribute f of the object r (an instance): instance dictionary only -
\* the fragment has no class attributes
GetAttr(h, r, f) == IF r.t = "ref" /\ f \in DOMAIN h[r.n].d THEN h[r.n].d[f] ELSE ErrV
SetAttr(h, r, f, v) == [h EXCEPT ![r.n].d = Bind(h[r.n].d, f, v)]

Eval(P, e, env, h, out) ==
  CASE e.k = "int"  -> R(IntV(e.n), h, out)
    [] e.k = "flt"  -> R(FloatV(e.n), h, out)
    [] e.k = "str"  -> R(StrV(e.s), h, out)
    [] e.k = "var"  -> R(IF e.s \in DOMAIN env THEN env[e.s] ELSE ErrV, h, out)
    [] e.k = "cls"  -> R(IF HasDef(P, e.s) THEN ClsV(e.s) ELSE ErrV, h, out)
    [] e.k = "fref" -> R(IF HasDef(P, e.s) THEN FunV(e.s) ELSE ErrV, h, out)
    [] e.k = "attr" -> LET r == Eval(P, e.xs[1], env, h, out) IN R(GetAttr(r.h, r.v, e.s), r.h, r.out)
    [] e.k = "kwarg" -> Eval(P, e.xs[1], env, h, out)
    [] e.k = "bin"  -> LET x == Eval(P, e.xs[1], env, h, out)
                           y == Eval(P, e.xs[2], env, x.h, x.out)
                       IN R(Arith(e.s, x.v, y.v), y.h, y.out)
    [] e.k = "isinst" -> LET r == Eval(P, e.xs[1], env, h, out)
                         IN R(IF r.v.t = "err" THEN ErrV
                              ELSE BoolV(r.v.t = "ref" /\ r.h[r.v.n].c = e.s), r.h, r.out)
    [] e.k = "call" ->
         LET fr == Eval(P, e.xs[1], env, h, out)
             ar == EvalList(P, Tail(e.xs), 1, env, fr.h, fr.out)
         IN IF fr.v.t = "err" \/ AnyErr(ar.vs) THEN R(ErrV, ar.h, ar.out)
            ELSE IF fr.v.t = "cls" THEN
              LET c == fr.v.s
                  ref == Len(ar.h) + 1
                  h1 == Append(ar.h, [c |-> c, d |-> EmptyD])
              IN IF HasMethod(P, c, "__init__")
                 THEN LET r == CallF(P, Method(P, c, "__init__"), <<RefV(ref)>> \o ar.vs, h1, ar.out)
                      IN R(IF r.v.t = "err" THEN ErrV ELSE RefV(ref), r.h, r.out)
                 ELSE IF ar.vs = <<>> THEN R(RefV(ref), h1, ar.out) ELSE R(ErrV, h1, ar.out)
            ELSE IF fr.v.t = "fun" THEN CallF(P, DefOf(P, fr.v.s), ar.vs, ar.h, ar.out)
            ELSE IF fr.v.t = "lfun" /\ HasLocalFn(P, fr.v.s) THEN CallF(P, LocalFn(P, fr.v.s), ar.vs, ar.h, ar.out)
            ELSE IF fr.v.t = "ref" /\ HasMethod(P, ar.h[fr.v.n].c, "__call__")
              THEN CallF(P, Method(P, ar.h[fr.v.n].c, "__call__"), <<fr.v>> \o ar.vs, ar.h, ar.out)
            ELSE R(ErrV, ar.h, ar.out)
    [] e.k = "mcall" ->
         LET rr == Eval(P, e.xs[1], env, h, out)
             ar == EvalList(P, Tail(e.xs), 1, env, rr.h, rr.out)
         IN IF rr.v.t = "err" \/ AnyErr(ar.vs) THEN R(ErrV, ar.h, ar.out)
            ELSE IF rr.v.t = "ref" THEN
              \* an instance attribute of that name hides the method (and is not callable)
              IF e.s \in DOMAIN ar.h[rr.v.n].d THEN R(ErrV, ar.h, ar.out)
              ELSE IF HasMethod(P, ar.h[rr.v.n].c, e.s)
                THEN LET f == Method(P, ar.h[rr.v.n].c, e.s)
                     IN CallF(P, f, IF f.kind = "static" THEN ar.vs ELSE <<rr.v>> \o ar.vs, ar.h, ar.out)
              ELSE R(ErrV, ar.h, ar.out)
            ELSE IF rr.v.t = "cls" /\ HasMethod(P, rr.v.s, e.s) /\ Method(P, rr.v.s, e.s).kind = "static"
              THEN CallF(P, Method(P, rr.v.s, e.s), ar.vs, ar.h, ar.out)
            ELSE R(ErrV, ar.h, ar.out)
    [] OTHER -> R(ErrV, h, out)

CallF(P, f, args, h, out) ==
  IF Len(args) # Len(f.params) THEN R(ErrV, h, out)
  ELSE LET env == [x \in Range(f.params) |-> args[IndexOf(f.params, x)]]
           r == Exec(P, f.body, 1, env, h, out)
       IN R(IF r.stop = "err" THEN ErrV ELSE r.ret, r.h, r.out)

\* store into a target node (attr or var) - used by chained assignment
StoreTarget(P, tgt, v, env, h, out) ==
  IF tgt.k = "var" THEN X(Bind(env, tgt.s, v), h, out, NoneV, "")
  ELSE LET r == Eval(P, tgt.xs[1], env, h, out)
       IN IF r.v.t # "ref" THEN X(env, r.h, r.out, NoneV, "err")
          ELSE X(env, SetAttr(r.h, r.v, tgt.s, v), r.out, NoneV, "")

Step(P, s, env, h, out) ==
  CASE s.k = "assign" -> LET r == Eval(P, s.xs[1], env, h, out)
                         IN IF r.v.t = "err" THEN X(env, r.h, r.out, NoneV, "err")
                            ELSE X(Bind(env, s.s, r.v), r.h, r.out, NoneV, "")
    [] s.k = "setattr" -> \* Python evaluates the value first, then the target's primary
         LET v == Eval(P, s.xs[2], env, h, out)
             r == Eval(P, s.xs[1], env, v.h, v.out)
         IN IF v.v.t = "err" \/ r.v.t # "ref" THEN X(env, r.h, r.out, NoneV, "err")
            ELSE X(env, SetAttr(r.h, r.v, s.s, v.v), r.out, NoneV, "")
    [] s.k = "augattr" -> \* primary once, load, value, operate, store
         LET r == Eval(P, s.xs[1], env, h, out)
             old == GetAttr(r.h, r.v, s.s)
             v == Eval(P, s.xs[2], env, r.h, r.out)
             new == Arith(s.t, old, v.v)
         IN IF r.v.t # "ref" \/ new.t = "err" THEN X(env, v.h, v.out, NoneV, "err")
            ELSE X(env, SetAttr(v.h, r.v, s.s, new), v.out, NoneV, "")
    [] s.k = "augvar" ->
         LET old == IF s.s \in DOMAIN env THEN env[s.s] ELSE ErrV
             v == Eval(P, s.xs[1], env, h, out)
             new == Arith(s.t, old, v.v)
         IN IF new.t = "err" THEN X(env, v.h, v.out, NoneV, "err")
            ELSE X(Bind(env, s.s, new), v.h, v.out, NoneV, "")
    [] s.k = "print" -> LET ar == EvalList(P, s.xs, 1, env, h, out)
                        IN IF AnyErr(ar.vs) THEN X(env, ar.h, ar.out, NoneV, "err")
                           ELSE X(env, ar.h, Append(ar.out, ar.vs), NoneV, "")
    [] s.k = "expr" -> LET r == Eval(P, s.xs[1], env, h, out)
                       IN X(env, r.h, r.out, NoneV, IF r.v.t = "err" THEN "err" ELSE "")
    [] s.k = "return" -> LET r == Eval(P, s.xs[1], env, h, out)
                         IN X(env, r.h, r.out, r.v, IF r.v.t = "err" THEN "err" ELSE "ret")
    [] s.k = "chain2" ->
         LET v == Eval(P, s.xs[3], env, h, out)
         IN IF v.v.t = "err" THEN X(env, v.h, v.out, NoneV, "err")
            ELSE LET x1 == StoreTarget(P, s.xs[1], v.v, env, v.h, v.out)
                 IN IF x1.stop = "err" THEN x1
                    ELSE StoreTarget(P, s.xs[2], v.v, x1.env, x1.h, x1.out)
    [] s.k = "def" -> X(Bind(env, s.s, LFunV(s.s)), h, out, NoneV, "")
    [] OTHER -> X(env, h, out, NoneV, "")

Exec(P, ss, i, env, h, out) ==
  IF i > Len(ss) THEN X(env, h, out, NoneV, "")
  ELSE LET x == Step(P, ss[i], env, h, out)
       IN IF x.stop # "" THEN x ELSE Exec(P, ss, i + 1, x.env, x.h, x.out)

\* what running module a / module b as the entry prints.  Importing a runs a.
ExcLine == <<ErrV>>
RunA(P) == Exec(P, P.a, 1, EmptyD, <<>>, <<>>)
ObsA(P) == LET x == RunA(P) IN IF x.stop = "err" THEN Append(x.out, ExcLine) ELSE x.out
ObsB(P) == LET x == RunA(P)
           IN IF x.stop = "err" THEN Append(x.out, ExcLine)
              ELSE LET y == Exec(P, P.b, 1, EmptyD, x.h, x.out)
                   IN IF y.stop = "err" THEN Append(y.out, ExcLine) ELSE y.out
Obs(P) == [a |-> ObsA(P), b |-> ObsB(P)]
Clean(o) == \A i \in DOMAIN o : o[i] # ExcLine

(* ------------------------------------------------------------------ *)
(* Concrete syntax as a token sequence.  t: token text, d: what an    *)
(* identifier denotes ("" for punctuation, keywords and the rest).    *)
(* Layout tokens: "NL" newline, "IN" indent, "DE" dedent, "#c" a      *)
(* trailing comment.                                                  *)
(* ------------------------------------------------------------------ *)
T(t, d) == [t |-> t, d |-> d]
NoD == <<>>
Tk(t) == T(t, NoD)
IntTok(n) == CASE n = 0 -> "0" [] n = 1 -> "1" [] n = 2 -> "2" [] n = 3 -> "3" [] n = 4 -> "4" [] n = 5 -> "5"
               [] n = 6 -> "6" [] n = 7 -> "7" [] n = 8 -> "8" [] n = 9 -> "9" [] OTHER -> ToString(n)
AugTok(op) == CASE op = "+" -> "+=" [] op = "*" -> "*=" [] op = "-" -> "-=" [] op = "//" -> "//=" [] OTHER -> "?="
\* context: module, import style, enclosing class, enclosing function and its parameters
\* (outer: the method a nested function sits in, "" otherwise)
Ctx(mod, im, self, fn, params) ==
  [mod |-> mod, imp |-> im, self |-> self, fn |-> fn, params |-> params, outer |-> "",
   here |-> {}]      \* names defined in this very module (module b's own classes need no a. prefix)

ModPrefixFor(c, name) == IF c.mod = "b" /\ c.imp = "import" /\ name \notin c.here THEN <<Tk("a"), Tk(".")>> ELSE <<>>
VarTok(x, c) ==
  IF c.outer # "" THEN T(x, <<IF x \in c.params THEN "nparam" ELSE "nlocal", c.self, c.outer, c.fn, x>>)
  ELSE IF c.fn # "" /\ x \notin c.params THEN T(x, <<"local", c.self, c.fn, x>>)
  ELSE IF c.fn # "" THEN T(x, <<"param", c.self, c.fn, x>>)
  ELSE Tk(x)

RECURSIVE TokE(_, _), TokArgs(_, _, _)
Paren(e, c) == IF e.k = "bin" THEN <<Tk("(")>> \o TokE(e, c) \o <<Tk(")")>> ELSE TokE(e, c)
TokArgs(es, i, c) ==
  IF i > Len(es) THEN <<>>
  ELSE TokE(es[i], c) \o (IF i < Len(es) THEN <<Tk(",")>> ELSE <<>>) \o TokArgs(es, i + 1, c)
TokE(e, c) ==
  CASE e.k = "int"  -> <<Tk(IntTok(e.n))>>
    [] e.k = "flt"  -> <<Tk(CASE e.n = 1 -> "1.0" [] e.n = 2 -> "2.0" [] e.n = 3 -> "3.0" [] OTHER -> ToString(e.n) \o ".0")>>
    [] e.k = "var"  -> <<VarTok(e.s, c)>>
    [] e.k = "str"  -> <<Tk("\"" \o e.s \o "\"")>>
    [] e.k = "cls"  -> ModPrefixFor(c, e.s) \o <<T(e.s, <<"class", e.s>>)>>
    [] e.k = "fref" -> ModPrefixFor(c, e.s) \o <<T(e.s, <<"func", e.s>>)>>
    [] e.k = "attr" -> TokE(e.xs[1], c) \o <<Tk("."), T(e.s, <<"field", TyE(e.xs[1], c.self), e.s>>)>>
    [] e.k = "bin"  -> Paren(e.xs[1], c) \o <<Tk(e.s)>> \o Paren(e.xs[2], c)
    [] e.k = "kwarg" -> <<Tk(e.s), Tk("=")>> \o TokE(e.xs[1], c)
    [] e.k = "call" -> TokE(e.xs[1], c) \o <<Tk("(")>> \o TokArgs(Tail(e.xs), 1, c) \o <<Tk(")")>>
    [] e.k = "mcall" -> TokE(e.xs[1], c)
                        \o <<Tk("."), T(e.s, <<"method", TyE(e.xs[1], c.self), e.s>>), Tk("(")>>
                        \o TokArgs(Tail(e.xs), 1, c) \o <<Tk(")")>>
    [] e.k = "isinst" -> <<Tk("isinstance"), Tk("(")>> \o TokE(e.xs[1], c) \o <<Tk(",")>>
                         \o ModPrefixFor(c, e.s) \o <<T(e.s, <<"class", e.s>>), Tk(")")>>
    [] OTHER -> <<Tk("?")>>

TokS(s, c) ==
  CASE s.k = "assign"  -> <<VarTok(s.s, c), Tk("=")>> \o TokE(s.xs[1], c)
    [] s.k = "setattr" -> TokE(A(s.xs[1], s.s), c) \o <<Tk("=")>> \o TokE(s.xs[2], c)
    [] s.k = "augattr" -> TokE(A(s.xs[1], s.s), c) \o <<Tk(AugTok(s.t))>> \o TokE(s.xs[2], c)
    [] s.k = "augvar"  -> <<VarTok(s.s, c), Tk(AugTok(s.t))>> \o TokE(s.xs[1], c)
    [] s.k = "print"   -> <<Tk("print"), Tk("(")>> \o TokArgs(s.xs, 1, c) \o <<Tk(")")>>
    [] s.k = "expr"    -> TokE(s.xs[1], c)
    [] s.k = "return"  -> <<Tk("return")>> \o TokE(s.xs[1], c)
    [] s.k = "chain2"  -> TokE(s.xs[1], c) \o <<Tk("=")>> \o TokE(s.xs[2], c) \o <<Tk("=")>> \o TokE(s.xs[3], c)
    [] OTHER -> <<Tk("pass")>>

RECURSIVE TokParams(_, _, _)
TokParams(ps, i, c) ==
  IF i > Len(ps) THEN <<>>
  ELSE <<VarTok(ps[i], c)>> \o (IF i < Len(ps) THEN <<Tk(",")>> ELSE <<>>) \o TokParams(ps, i + 1, c)

\* a statement whose value is laid out over several physical lines: "NLC" is a line break inside
\* brackets, "BSL" a backslash-newline
TokSD(s, c) ==
  IF s.d \in {"wrap", "bslash"} /\ s.k \in {"assign", "setattr", "augattr", "augvar"}
  THEN LET head == CASE s.k = "assign"  -> <<VarTok(s.s, c), Tk("=")>>
                     [] s.k = "setattr" -> TokE(A(s.xs[1], s.s), c) \o <<Tk("=")>>
                     [] s.k = "augattr" -> TokE(A(s.xs[1], s.s), c) \o <<Tk(AugTok(s.t))>>
                     [] OTHER -> <<VarTok(s.s, c), Tk(AugTok(s.t))>>
           val == TokE(s.xs[Len(s.xs)], c)
       IN IF s.d = "wrap" THEN head \o <<Tk("("), Tk("NLC")>> \o val \o <<Tk("NLC"), Tk(")")>>
          ELSE head \o <<Tk("BSL")>> \o val
  ELSE TokS(s, c)

RECURSIVE TokBody(_, _, _)
\* a nested def: its name is a local of the enclosing function (same tag as its uses)
TokNested(st, c) ==
  LET ci == [Ctx(c.mod, c.imp, c.self, st.s, Range(st.ps)) EXCEPT !.outer = c.fn, !.here = c.here]
  IN <<Tk("def"), VarTok(st.s, c), Tk("(")>> \o TokParams(st.ps, 1, ci) \o <<Tk(")"), Tk(":"), Tk("NL"), Tk("IN")>>
     \o TokBody(st.b, 1, ci) \o <<Tk("DE")>>
TokBody(ss, i, c) ==
  IF i > Len(ss) THEN <<>>
  ELSE IF ss[i].k = "def" THEN TokNested(ss[i], c) \o TokBody(ss, i + 1, c)
  ELSE TokSD(ss[i], c)
       \o (IF ss[i].d = "semi" /\ i < Len(ss) THEN <<Tk(";")>>
           ELSE (IF ss[i].d = "comment" THEN <<Tk("#c")>> ELSE <<>>) \o <<Tk("NL")>>)
       \o TokBody(ss, i + 1, c)

TokFunc(f, c0) ==
  LET c == [Ctx(c0.mod, c0.imp, c0.self, f.name, Range(f.params)) EXCEPT !.here = c0.here]
  IN (IF f.kind = "static" THEN <<Tk("@"), Tk("staticmethod"), Tk("NL")>> ELSE <<>>)
     \o <<Tk("def"), T(f.name, IF c0.self = "" THEN <<"func", f.name>> ELSE <<"method", c0.self, f.name>>),
          Tk("(")>> \o TokParams(f.params, 1, c)
     \o (IF f.one /\ Len(f.body) = 1 /\ f.body[1].k # "def"
         THEN <<Tk(")"), Tk(":")>> \o TokBody(f.body, 1, c) \o <<Tk("DD")>>     \* DD: end of a one-line definition
         ELSE <<Tk(")"), Tk(":"), Tk("NL"), Tk("IN")>> \o TokBody(f.body, 1, c) \o <<Tk("DE")>>)

RECURSIVE TokMethods(_, _, _)
TokMethods(ms, i, c) == IF i > Len(ms) THEN <<>> ELSE TokFunc(ms[i], c) \o TokMethods(ms, i + 1, c)

TokDef0(d, c) ==
  IF d.kind = "class"
  THEN <<Tk("class"), T(d.name, <<"class", d.name>>), Tk("("), Tk("object"), Tk(")"), Tk(":"), Tk("NL"), Tk("IN")>>
       \o TokMethods(d.methods, 1, [Ctx(c.mod, c.imp, d.name, "", {}) EXCEPT !.here = c.here]) \o <<Tk("DE")>>
  ELSE TokFunc(d, c)
TokDef(d, c) ==
  IF d.blk THEN <<Tk("if"), Tk("1"), Tk(":"), Tk("NL"), Tk("IN")>> \o TokDef0(d, c)
                \o <<Tk("DE"), Tk("else"), Tk(":"), Tk("NL"), Tk("IN"), Tk("zz"), Tk("="), Tk("1"), Tk("NL"), Tk("DE")>>
  ELSE TokDef0(d, c)

RECURSIVE TokDefs(_, _, _)
TokDefs(ds, i, c) == IF i > Len(ds) THEN <<>> ELSE TokDef(ds[i], c) \o TokDefs(ds, i + 1, c)

RECURSIVE TokNames(_, _, _)
TokNames(P, ns, i) ==
  IF i > Len(ns) THEN <<>>
  ELSE <<T(ns[i], <<IF DefOf(P, ns[i]).kind = "class" THEN "class" ELSE "func", ns[i]>>)>>
       \o (IF i < Len(ns) THEN <<Tk(",")>> ELSE <<>>) \o TokNames(P, ns, i + 1)

Toks(P, mod) ==
  LET c == [Ctx(mod, P.imp, "", "", {}) EXCEPT
              !.here = IF mod = "b" THEN {P.bdefs[i].name : i \in DOMAIN P.bdefs} ELSE {}]
  IN IF mod = "a" THEN TokDefs(P.defs, 1, c) \o TokBody(P.a, 1, c)
     ELSE (IF P.imp = "import" \/ P.bnames = <<>> THEN <<Tk("import"), Tk("a"), Tk("NL")>>
           ELSE <<Tk("from"), Tk("a"), Tk("import")>> \o TokNames(P, P.bnames, 1) \o <<Tk("NL")>>)
          \o TokDefs(P.bdefs, 1, c) \o TokBody(P.b, 1, c)

(* ------------------------------------------------------------------ *)
(* Generic traversals                                                 *)
(* ------------------------------------------------------------------ *)
RECURSIVE CountE(_, _, _), CountEs(_, _, _, _)
\* number of nodes of kind k and name s in e
CountE(e, k, s) == (IF e.k = k /\ e.s = s THEN 1 ELSE 0) + CountEs(e.xs, 1, k, s)
CountEs(es, i, k, s) == IF i > Len(es) THEN 0 ELSE CountE(es[i], k, s) + CountEs(es, i + 1, k, s)
RECURSIVE CountBody(_, _, _, _)
CountBody(ss, i, k, s) == IF i > Len(ss) THEN 0 ELSE CountEs(ss[i].xs, 1, k, s) + CountBody(ss, i + 1, k, s)

RECURSIVE Pure(_)
\* no call of any kind inside e
Pure(e) == e.k \notin {"call", "mcall"} /\ \A i \in DOMAIN e.xs : Pure(e.xs[i])

RECURSIVE UsesVar(_, _)
UsesVar(e, x) == (e.k = "var" /\ e.s = x) \/ \E i \in DOMAIN e.xs : UsesVar(e.xs[i], x)
StmtUsesVar(s, x) == (s.k \in {"assign", "augvar"} /\ s.s = x) \/ \E i \in DOMAIN s.xs : UsesVar(s.xs[i], x)

\* names assigned through self.<name> in the methods of class c, and its method names
ClassNames(P, c) ==
  LET ms == DefOf(P, c).methods
  IN {ms[i].name : i \in DOMAIN ms}
     \cup UNION {{ms[i].body[j].s : j \in {jj \in DOMAIN ms[i].body :
                    ms[i].body[jj].k \in {"setattr", "augattr"} /\ ms[i].body[jj].xs[1].k = "var"
                    /\ ms[i].body[jj].xs[1].s \in SelfNames}} :
                 i \in DOMAIN ms}

(* ------------------------------------------------------------------ *)
(* The refactorings on abstract programs.  q is the request:          *)
(*   [kind, tgt (denotation of the target), cls, name, new, glob,     *)
(*    host]                                                           *)
(* ------------------------------------------------------------------ *)
Req(kind, tgt, cls, name, new, glob) ==
  [kind |-> kind, tgt |-> tgt, cls |-> cls, name |-> name, new |-> new, glob |-> glob,
   host |-> "",      \* for a target inside a nested function: the method the nested function sits in
   attr |-> "",      \* MoveMethod: the attribute of the class whose value's class receives the method
   get |-> IF kind = "enc" THEN "get_" \o name ELSE "", set |-> IF kind = "enc" THEN "set_" \o name ELSE ""]
NoReq == Req("", <<>>, "", "", "", FALSE)

\* --- pattern matching for UseFunction: params are wildcards, repeated
\* wildcards must bind structurally equal expressions
RECURSIVE MatchE(_, _, _, _), MatchEs(_, _, _, _, _)
MatchE(pat, e, ps, b) ==
  IF ~b.ok THEN b
  ELSE IF pat.k = "var" /\ pat.s \in ps
    THEN IF pat.s \in DOMAIN b.m THEN [ok |-> b.m[pat.s] = e, m |-> b.m]
         ELSE [ok |-> TRUE, m |-> Bind(b.m, pat.s, e)]
  ELSE IF pat.k = e.k /\ pat.s = e.s /\ pat.n = e.n /\ Len(pat.xs) = Len(e.xs)
    THEN MatchEs(pat.xs, e.xs, 1, ps, b)
  ELSE [ok |-> FALSE, m |-> b.m]
MatchEs(ps1, es, i, ps, b) ==
  IF i > Len(ps1) THEN b ELSE MatchEs(ps1, es, i + 1, ps, MatchE(ps1[i], es[i], ps, b))
NoBind == [ok |-> TRUE, m |-> [x \in {} |-> I(0)]]

\* a match may be replaced iff every parameter used more than once in the
\* pattern is bound to a call-free expression (with Guards off: always)
RECURSIVE CountVar(_, _)
CountVar(e, x) == (IF e.k = "var" /\ e.s = x THEN 1 ELSE 0) + SumSeq([i \in DOMAIN e.xs |-> CountVar(e.xs[i], x)])
SafeBinding(pat, ps, m) ==
  IF Guards THEN \A x \in DOMAIN m : CountVar(pat, x) > 1 => Pure(m[x]) ELSE TRUE

\* the function a UseFunction request is about, in one of three supported shapes
UfShape(f) ==
  IF Len(f.body) = 1 /\ f.body[1].k = "return" THEN "expr"
  ELSE IF Len(f.body) = 1 /\ f.body[1].k = "print" THEN "stmt"
  ELSE IF Len(f.body) = 2 /\ f.body[1].k = "assign" /\ f.body[2].k = "return" THEN "temp"
  ELSE "other"

RECURSIVE TrE(_, _, _, _), TrEs(_, _, _, _, _)
TrEs(q, P, es, i, self) ==
  IF i > Len(es) THEN <<>> ELSE <<TrE(q, P, es[i], self)>> \o TrEs(q, P, es, i + 1, self)
TrE(q, P, e, self) ==
  LET kids == TrEs(q, P, e.xs, 1, self)
      plain == [e EXCEPT !.xs = kids]
  IN CASE q.kind = "enc" ->
            IF e.k = "attr" /\ e.s = q.name /\ TyE(e.xs[1], self) = q.cls
            THEN MC(kids[1], q.get, <<>>) ELSE plain
       [] q.kind = "fac" ->
            IF e.k = "call" /\ e.xs[1].k = "cls" /\ e.xs[1].s = q.cls
            THEN (IF q.glob THEN Call(F(q.new), Tail(kids)) ELSE MC(K(q.cls), q.new, Tail(kids)))
            ELSE plain
       [] q.kind = "uf" ->
            LET f == DefOf(P, q.name)
            IN IF UfShape(f) = "expr"
               THEN LET pat == f.body[1].xs[1]
                        b == MatchE(pat, e, Range(f.params), NoBind)
                    IN IF b.ok /\ DOMAIN b.m = Range(f.params) /\ SafeBinding(pat, Range(f.params), b.m)
                       THEN Call(F(q.name), [i \in DOMAIN f.params |-> TrE(q, P, b.m[f.params[i]], self)])
                       ELSE plain
               ELSE plain
       [] OTHER -> plain

\* one statement becomes a sequence of statements
TrS(q, P, s, self) ==
  LET kids == TrEs(q, P, s.xs, 1, self)
      plain == [s EXCEPT !.xs = kids]
      onField(r) == TyE(r, self) = q.cls
  IN CASE q.kind = "enc" /\ s.k = "setattr" /\ s.s = q.name /\ onField(s.xs[1]) ->
            <<[Ex(MC(kids[1], q.set, <<kids[2]>>)) EXCEPT !.d = s.d]>>
       [] q.kind = "enc" /\ s.k = "augattr" /\ s.s = q.name /\ onField(s.xs[1]) ->
            <<[Ex(MC(kids[1], q.set,
                     <<B(s.t, MC(kids[1], q.get, <<>>), kids[2])>>)) EXCEPT !.d = s.d]>>
       [] q.kind = "enc" /\ s.k = "chain2" ->
            \* t1 = t2 = e  with a field among the targets: value once, then one store per target
            LET isF(t) == t.k = "attr" /\ t.s = q.name /\ onField(t.xs[1])
                store(t, orig) == IF isF(orig) THEN Ex(MC(t.xs[1], q.set, <<V("_v")>>))
                                  ELSE IF orig.k = "var" THEN Asg(orig.s, V("_v"))
                                  ELSE Set(t.xs[1], t.s, V("_v"))
                \* kids of a target that is the field itself were turned into getter calls: use the
                \* transformed primary only
                prim(orig) == IF orig.k = "var" THEN orig ELSE A(TrE(q, P, orig.xs[1], self), orig.s)
            IN IF isF(s.xs[1]) \/ isF(s.xs[2])
               THEN <<Asg("_v", kids[3]), store(prim(s.xs[1]), s.xs[1]),
                      [store(prim(s.xs[2]), s.xs[2]) EXCEPT !.d = s.d]>>
               ELSE <<[s EXCEPT !.xs = <<prim(s.xs[1]), prim(s.xs[2]), kids[3]>>]>>
       [] q.kind = "uf" /\ s.k = "print" /\ UfShape(DefOf(P, q.name)) = "stmt" ->
            LET f == DefOf(P, q.name)
                pat == f.body[1]
                b == MatchEs(pat.xs, s.xs, 1, Range(f.params), NoBind)
            IN IF Len(pat.xs) = Len(s.xs) /\ b.ok /\ DOMAIN b.m = Range(f.params)
                  /\ (IF Guards THEN \A x \in DOMAIN b.m :
                                       SumSeq([i \in DOMAIN pat.xs |-> CountVar(pat.xs[i], x)]) > 1 => Pure(b.m[x])
                      ELSE TRUE)
               THEN <<[Ex(Call(F(q.name), [i \in DOMAIN f.params |-> b.m[f.params[i]]])) EXCEPT !.d = s.d]>>
               ELSE <<plain>>
       [] OTHER -> <<plain>>

\* a statement list; UseFunction of the "temp" shape rewrites two adjacent statements
RECURSIVE TrBody(_, _, _, _, _)
TrBody(q, P, ss, i, self) ==
  IF i > Len(ss) THEN <<>>
  ELSE
    LET f == IF q.kind = "uf" THEN DefOf(P, q.name) ELSE Fn("", <<>>, <<>>)
    IN IF q.kind = "uf" /\ UfShape(f) = "temp" /\ i < Len(ss)
          /\ ss[i].k = "assign" /\ ss[i + 1].k = "assign" /\ ss[i].d = ""
       THEN LET t == f.body[1].s                      \* the temporary of the function body
                ps == Range(f.params) \cup {t}
                b1 == MatchE(f.body[1].xs[1], ss[i].xs[1], ps, NoBind)
                b2 == MatchE(f.body[2].xs[1], ss[i + 1].xs[1], ps,
                             IF b1.ok THEN [ok |-> TRUE, m |-> Bind(b1.m, t, V(ss[i].s))] ELSE b1)
                live == \E j \in (i + 2)..Len(ss) : StmtUsesVar(ss[j], ss[i].s)
                pat2 == B("+", f.body[1].xs[1], f.body[2].xs[1])   \* only to count parameter uses
            IN IF b2.ok /\ DOMAIN b2.m = ps /\ ss[i].s # ss[i + 1].s
                  /\ (IF Guards THEN ~live /\ \A x \in Range(f.params) : CountVar(pat2, x) > 1 => Pure(b2.m[x])
                      ELSE TRUE)
               THEN <<[Asg(ss[i + 1].s, Call(F(q.name), [k \in DOMAIN f.params |-> b2.m[f.params[k]]]))
                        EXCEPT !.d = ss[i + 1].d]>> \o TrBody(q, P, ss, i + 2, self)
               ELSE TrS(q, P, ss[i], self) \o TrBody(q, P, ss, i + 1, self)
       ELSE TrS(q, P, ss[i], self) \o TrBody(q, P, ss, i + 1, self)

\* --- turning names of a function body into attributes of an object (MethodObject,
\* LocalToField): var x in names -> obj.<ren(x)>
RECURSIVE FzE(_, _, _), FzEs(_, _, _, _)
FzEs(es, i, names, obj) == IF i > Len(es) THEN <<>> ELSE <<FzE(es[i], names, obj)>> \o FzEs(es, i + 1, names, obj)
FzE(e, names, obj) ==
  IF e.k = "var" /\ e.s \in names THEN A(V(obj), e.s)
  ELSE [e EXCEPT !.xs = FzEs(e.xs, 1, names, obj)]
FzS(s, names, obj) ==
  LET kids == FzEs(s.xs, 1, names, obj)
  IN CASE s.k = "assign" /\ s.s \in names -> [Set(V(obj), s.s, kids[1]) EXCEPT !.d = s.d]
       [] s.k = "augvar" /\ s.s \in names -> [Aug(V(obj), s.s, s.t, kids[1]) EXCEPT !.d = s.d]
       [] OTHER -> [s EXCEPT !.xs = kids]
FzBody(ss, names, obj) == [i \in DOMAIN ss |-> FzS(ss[i], names, obj)]

VarsOf(ps) == [i \in DOMAIN ps |-> V(ps[i])]

\* --- renaming a variable throughout a body (MoveMethod: the old self becomes host)
RECURSIVE RnE(_, _, _), RnEs(_, _, _, _)
RnEs(es, i, from, to) == IF i > Len(es) THEN <<>> ELSE <<RnE(es[i], from, to)>> \o RnEs(es, i + 1, from, to)
RnE(e, from, to) == IF e.k = "var" /\ e.s = from THEN V(to) ELSE [e EXCEPT !.xs = RnEs(e.xs, 1, from, to)]
RnBody(ss, from, to) ==
  [i \in DOMAIN ss |-> [ss[i] EXCEPT !.xs = RnEs(ss[i].xs, 1, from, to),
                                    !.s = IF ss[i].k \in {"assign", "augvar"} /\ ss[i].s = from THEN to ELSE @]]
BodyUsesVar(ss, x) == \E i \in DOMAIN ss : StmtUsesVar(ss[i], x)

\* MoveMethod(method q.name of class q.cls, attribute q.attr whose value is an instance of class
\* dcls, new name q.new): the body becomes a method of dcls - the old self is passed as `host`
\* when the body uses it - and the old method delegates to it.
MovedMethod(q, f) ==
  LET sn == f.params[1]
      hostUsed == BodyUsesVar(f.body, sn)
  IN Fn(q.new, <<"self">> \o (IF hostUsed THEN <<"host">> ELSE <<>>) \o Tail(f.params), RnBody(f.body, sn, "host"))
Delegation(q, f) ==
  LET sn == f.params[1]
      hostUsed == BodyUsesVar(f.body, sn)
  IN <<Ret(MC(A(V(sn), q.attr), q.new, (IF hostUsed THEN <<V(sn)>> ELSE <<>>) \o VarsOf(Tail(f.params))))>>
\* the class of the value the constructor stores in attribute attr of class c:  self.attr = D(...)
AttrClassOf(P, c, attr) ==
  LET b == Method(P, c, "__init__").body
      st == b[CHOOSE i \in DOMAIN b : b[i].k = "setattr" /\ b[i].s = attr]
  IN st.xs[2].xs[1].s
MoveMethodIn(q, P, defs) ==
  LET f == Method(P, q.cls, q.name)
      dcls == AttrClassOf(P, q.cls, q.attr)
  IN [i \in DOMAIN defs |->
        IF defs[i].name = q.cls
        THEN [defs[i] EXCEPT !.methods = [j \in DOMAIN @ |-> IF @[j].name = q.name
                                                             THEN [@[j] EXCEPT !.body = Delegation(q, f)] ELSE @[j]]]
        ELSE IF defs[i].name = dcls THEN [defs[i] EXCEPT !.methods = @ \o <<MovedMethod(q, f)>>]
        ELSE defs[i]]

TrFunc(q, P, f, self) ==
  \* Encapsulate leaves the function that defines the field alone (it is the
  \* constructor of the fragment); UseFunction leaves the function itself alone
  IF (q.kind = "enc" /\ self = q.cls /\ f.name = "__init__") \/ (q.kind = "uf" /\ self = "" /\ f.name = q.name)
  THEN f ELSE [f EXCEPT !.body = TrBody(q, P, f.body, 1, self)]

TrDef(q, P, d) ==
  IF d.kind = "class"
  THEN [d EXCEPT !.methods = [i \in DOMAIN d.methods |-> TrFunc(q, P, d.methods[i], d.name)]]
  ELSE TrFunc(q, P, d, "")

Getter(q) == Fn(q.get, <<"self">>, <<Ret(A(V("self"), q.name))>>)
Setter(q) == Fn(q.set, <<"self", "value">>, <<Set(V("self"), q.name, V("value"))>>)

InitParams(P, c) == Tail(Method(P, c, "__init__").params)

\* insert d after the top-level definition named after
InsertAfter(defs, after, d) ==
  LET i == CHOOSE j \in DOMAIN defs : defs[j].name = after
  IN SubSeq(defs, 1, i) \o <<d>> \o SubSeq(defs, i + 1, Len(defs))

\* the method-object class for function f (a method of class self when self # "")
MoClass(q, f) ==
  LET ps == f.params
      names == Range(ps)
      initps == [i \in DOMAIN ps |-> IF ps[i] = "self" THEN "host" ELSE ps[i]]
  IN Class(q.new,
       (IF ps = <<>> THEN <<>>
        ELSE <<Fn("__init__", <<"self">> \o initps, [i \in DOMAIN ps |-> Set(V("self"), ps[i], V(initps[i]))])>>)
       \o <<Fn("__call__", <<"self">>, FzBody(f.body, names, "self"))>>)
\* FzBody maps var self -> self.self as well because "self" is one of the names

Refusable(q, P) ==
  \* a request for which no behaviour-preserving result exists in the fragment: it has to be
  \* refused.  LocalToField on a name the class already has; LocalToField on a local of a function
  \* nested in a method (it is not a local of a method: there is no object to hold the field)
  \/ q.kind = "ltf" /\ (q.host # "" \/ q.name \in ClassNames(P, q.cls))
  \* a global factory for a class that sits inside a compound statement: there is no place at module
  \* level right after the class
  \/ q.kind = "fac" /\ q.glob /\ DefOf(P, q.cls).blk

Refactor(q, P) ==
  LET tdefs == [i \in DOMAIN P.defs |-> TrDef(q, P, P.defs[i])]
      ta == TrBody(q, P, P.a, 1, "")
      tb == TrBody(q, P, P.b, 1, "")
  IN CASE q.kind = "enc" ->
            [P EXCEPT !.defs = [i \in DOMAIN tdefs |->
                                  IF tdefs[i].name = q.cls
                                  THEN [tdefs[i] EXCEPT !.methods = @ \o <<Getter(q), Setter(q)>>]
                                  ELSE tdefs[i]],
                      !.a = ta, !.b = tb]
       [] q.kind = "fac" /\ Refusable(q, P) -> P
       [] q.kind = "fac" ->
            LET ps == InitParams(P, q.cls)
                body == <<Ret(Call(K(q.cls), VarsOf(ps)))>>
            IN [P EXCEPT !.defs = IF q.glob THEN InsertAfter(tdefs, q.cls, Fn(q.new, ps, body))
                                  ELSE [i \in DOMAIN tdefs |->
                                          IF tdefs[i].name = q.cls
                                          THEN [tdefs[i] EXCEPT !.methods = @ \o <<Static(q.new, ps, body)>>]
                                          ELSE tdefs[i]],
                        !.a = ta, !.b = tb,
                        !.bnames = IF q.glob /\ P.bnames # <<>> THEN @ \o <<q.new>> ELSE @]
       [] q.kind = "mo" /\ q.host # "" ->
            \* a function nested in method q.host of class q.cls: its body becomes the call of the
            \* method object, the new class goes after the TOP-LEVEL definition that contains it
            LET f == LocalFn(P, q.name)
                newbody == <<Ret(Call(Call(K(q.new), VarsOf(f.params)), <<>>))>>
                defs1 == [i \in DOMAIN P.defs |->
                            IF P.defs[i].name = q.cls
                            THEN [P.defs[i] EXCEPT !.methods =
                                    [j \in DOMAIN @ |->
                                       IF @[j].name = q.host
                                       THEN [@[j] EXCEPT !.body =
                                               [k \in DOMAIN @ |-> IF @[k].k = "def" /\ @[k].s = q.name
                                                                   THEN [@[k] EXCEPT !.b = newbody] ELSE @[k]]]
                                       ELSE @[j]]]
                            ELSE P.defs[i]]
            IN [P EXCEPT !.defs = InsertAfter(defs1, q.cls, MoClass(q, f))]
       [] q.kind = "mo" ->
            LET f == IF q.cls = "" THEN DefOf(P, q.name) ELSE Method(P, q.cls, q.name)
                newbody == <<Ret(Call(Call(K(q.new), VarsOf(f.params)), <<>>))>>
                top == IF q.cls = "" THEN q.name ELSE q.cls
                defs1 == [i \in DOMAIN P.defs |->
                            IF q.cls = "" /\ P.defs[i].name = q.name THEN [P.defs[i] EXCEPT !.body = newbody]
                            ELSE IF q.cls # "" /\ P.defs[i].name = q.cls
                              THEN [P.defs[i] EXCEPT !.methods =
                                      [j \in DOMAIN @ |-> IF @[j].name = q.name THEN [@[j] EXCEPT !.body = newbody]
                                                          ELSE @[j]]]
                            ELSE P.defs[i]]
            IN [P EXCEPT !.defs = InsertAfter(defs1, top, MoClass(q, f))]
       [] q.kind = "ltf" ->
            IF Refusable(q, P) /\ (Guards \/ q.host # "") THEN P
            ELSE [P EXCEPT !.defs = [i \in DOMAIN @ |->
                    IF @[i].name = q.cls
                    THEN [@[i] EXCEPT !.methods =
                            [j \in DOMAIN @ |-> IF @[j].name = q.new   \* q.new carries the method name
                                                THEN [@[j] EXCEPT !.body = FzBody(@, {q.name}, Method(P, q.cls, q.new).params[1])]
                                                ELSE @[j]]]
                    ELSE @[i]]]
       [] q.kind = "uf" -> [P EXCEPT !.defs = tdefs, !.a = ta, !.b = tb]
       [] q.kind = "mm" -> [P EXCEPT !.defs = MoveMethodIn(q, P, @), !.bdefs = MoveMethodIn(q, P, @)]
       [] OTHER -> P

(* ------------------------------------------------------------------ *)
(* Counting clauses of Encapsulate                                    *)
(* ------------------------------------------------------------------ *)
RECURSIVE CountDefs(_, _, _, _)
CountFunc(f, k, s) == CountBody(f.body, 1, k, s)
CountDef(d, k, s) ==
  IF d.kind = "class" THEN SumSeq([i \in DOMAIN d.methods |-> CountFunc(d.methods[i], k, s)]) ELSE CountFunc(d, k, s)
CountDefs(ds, i, k, s) == IF i > Len(ds) THEN 0 ELSE CountDef(ds[i], k, s) + CountDefs(ds, i + 1, k, s)
CountProg(P, k, s) == CountDefs(P.defs, 1, k, s) + CountBody(P.a, 1, k, s) + CountBody(P.b, 1, k, s)

\* typed counts on the original: reads / plain writes / augmented writes of field q.name
\* through an expression of class q.cls, outside the defining function
RECURSIVE ReadsE(_, _, _), ReadsEs(_, _, _, _)
ReadsE(q, e, self) ==
  (IF e.k = "attr" /\ e.s = q.name /\ TyE(e.xs[1], self) = q.cls THEN 1 ELSE 0) + ReadsEs(q, e.xs, 1, self)
ReadsEs(q, es, i, self) == IF i > Len(es) THEN 0 ELSE ReadsE(q, es[i], self) + ReadsEs(q, es, i + 1, self)
IsFieldT(q, t, self) == t.k = "attr" /\ t.s = q.name /\ TyE(t.xs[1], self) = q.cls
\* a chained-assignment target is not a read: count only what is below it
TargetReads(q, t, self) == IF t.k = "var" THEN 0 ELSE ReadsE(q, t.xs[1], self)
StmtReads(q, s, self) ==
  IF s.k = "chain2" THEN TargetReads(q, s.xs[1], self) + TargetReads(q, s.xs[2], self) + ReadsE(q, s.xs[3], self)
  ELSE ReadsEs(q, s.xs, 1, self)
StmtWrites(q, s, self) ==
  IF s.k = "setattr" /\ s.s = q.name /\ TyE(s.xs[1], self) = q.cls THEN 1
  ELSE IF s.k = "chain2" THEN (IF IsFieldT(q, s.xs[1], self) THEN 1 ELSE 0) + (IF IsFieldT(q, s.xs[2], self) THEN 1 ELSE 0)
  ELSE 0
StmtAugs(q, s, self) == IF s.k = "augattr" /\ s.s = q.name /\ TyE(s.xs[1], self) = q.cls THEN 1 ELSE 0
BodyCount(Op(_, _, _), q, ss, self) == SumSeq([i \in DOMAIN ss |-> Op(q, ss[i], self)])

(* ------------------------------------------------------------------ *)
(* Program families: class / function variants, pools of client       *)
(* snippets.  A pool entry: ss (statements), feat ("" or the optional *)
(* feature it needs), vs (variants it makes sense for; {} = all).     *)
(* ------------------------------------------------------------------ *)
Ent(ss, feat, vs) == [ss |-> ss, feat |-> feat, vs |-> vs]
Var(defs, feat) == [defs |-> defs, feat |-> feat]

self == V("self")
o == V("o")
p == V("p")
x == V("x")
y == V("y")
t == V("t")
NewC(n) == Call(K("C"), <<I(n)>>)

InitC == Fn("__init__", <<"self", "v">>, <<Set(self, "f", V("v")), Set(self, "g", I(2))>>)
ClassC(methods) == Class("C", <<InitC>> \o methods)
MethM(body) == Fn("m", <<"self", "x">>, body)
ClassD == Class("D", <<Fn("__init__", <<"self", "c">>,
                          <<Set(self, "h", Call(K("C"), <<V("c")>>)), Set(self, "f", V("c"))>>)>>)

MB1 == <<Set(self, "f", B("+", A(self, "f"), x)), Ret(A(self, "f"))>>
MB2 == <<Aug(self, "f", "+", x), Ret(A(self, "g"))>>
MB3 == <<Ret(B("*", x, I(2)))>>

\* MoveMethod family: D is the class of C's attribute g; C has methods that use nothing of
\* self, a field, the attribute itself, a sibling method, a local, and one whose self is `this`
ClassDm == Class("D", <<Fn("__init__", <<"self", "c">>, <<Set(self, "k", V("c"))>>),
                        Fn("bump", <<"self", "z">>, <<Aug(self, "k", "+", V("z")), Ret(A(self, "k"))>>)>>)
ClassCm == Class("C", <<Fn("__init__", <<"self", "v">>, <<Set(self, "f", V("v")), Set(self, "g", Call(K("D"), <<I(2)>>))>>),
                        Fn("ma", <<"self", "x">>, <<Ret(B("*", x, I(2)))>>),
                        Fn("mb", <<"self", "x">>, <<Ret(B("+", A(self, "f"), x))>>),
                        Fn("mc", <<"self", "x", "y">>, <<Aug(self, "f", "+", y),
                                                        Ret(B("+", MC(A(self, "g"), "bump", <<x>>), A(A(self, "g"), "k")))>>),
                        Fn("md", <<"self", "x">>, <<Asg("t", B("*", MC(self, "mb", <<x>>), I(2))), Set(self, "f", t),
                                                   Ret(B("+", t, I(1)))>>),
                        Fn("me", <<"this", "x">>, <<Set(A(V("this"), "g"), "k", x), Ret(A(V("this"), "f"))>>),
                        Fn("n", <<"self">>, <<Ret(A(self, "f"))>>)>>)

Variants(f) ==
  CASE f = "enc" -> << Var(<<ClassC(<<MethM(MB1)>>), ClassD>>, ""),
                       Var(<<ClassC(<<MethM(MB2)>>), ClassD>>, ""),
                       Var(<<ClassC(<<MethM(MB3)>>), ClassD>>, "") >>
    [] f = "fac" -> << Var(<<ClassC(<<MethM(MB3)>>)>>, ""),
                       Var(<<ClassC(<<Fn("clone", <<"self">>, <<Ret(Call(K("C"), <<A(self, "f")>>))>>)>>),
                             Fn("mk", <<"v">>, <<Ret(Call(K("C"), <<V("v")>>))>>)>>, ""),
                       \* the class inside a module-level if/else block
                       Var(<<InBlock(ClassC(<<MethM(MB3)>>))>>, "") >>
    [] f = "mo"  -> << Var(<<ClassC(<<MethM(<<Asg("t", B("+", x, A(self, "f"))), Set(self, "f", B("*", t, I(2))),
                                             AugV("x", "+", I(1)), Ret(B("+", t, x))>>),
                                      Fn("n", <<"self">>, <<Ret(A(self, "g"))>>)>>),
                             Fn("fn", <<"x", "y">>, <<Asg("t", B("+", x, y)), Asg("x", B("*", t, I(2))),
                                                     Ret(B("-", x, y))>>)>>, ""),
                       Var(<<ClassC(<<MethM(MB1)>>),
                             Fn("fn", <<"x", "y">>, <<Pr(<<x>>), AugV("y", "+", x), Ret(y)>>),
                             Fn("g0", <<>>, <<Pr(<<I(7)>>)>>)>>, ""),
                       \* a function nested in a method that is followed by further members of the class
                       \* (the constructor among them): targets two levels deep
                       Var(<<Class("C", <<MethM(<<DefS("h", <<"y">>, <<Asg("t", B("*", y, I(2))), AugV("y", "+", I(1)),
                                                                       Ret(B("+", t, y))>>),
                                                 Ret(B("+", Call(V("h"), <<x>>), A(self, "f")))>>),
                                         InitC, Fn("n", <<"self">>, <<Ret(A(self, "g"))>>)>>),
                             Fn("fn", <<"x", "y">>, <<Ret(B("+", x, y))>>)>>, "") >>
    [] f = "ltf" -> << Var(<<ClassC(<<MethM(<<Asg("t", B("+", x, A(self, "f"))), AugV("t", "+", I(1)),
                                             Ret(B("*", t, I(2)))>>)>>)>>, ""),
                       Var(<<ClassC(<<MethM(<<Asg("t", x), Asg("u", B("+", t, A(self, "g"))),
                                             Pr(<<t, V("u")>>), Ret(V("u"))>>)>>)>>, ""),
                       Var(<<ClassC(<<Fn("m", <<"this", "x">>,
                                         <<Asg("t", B("*", x, A(V("this"), "f"))), Set(V("this"), "g", t),
                                           Ret(B("+", t, A(V("this"), "g")))>>)>>)>>, ""),
                       \* the local's name also occurs, as a whole word, inside a string literal
                       Var(<<ClassC(<<MethM(<<Asg("t", B("+", x, A(self, "f"))), Pr(<<Str("t"), t>>),
                                             Ret(B("*", t, I(2)))>>)>>)>>, ""),
                       \* nested functions (with and without a parameter) in the method: their locals
                       \* are not method locals
                       Var(<<ClassC(<<MethM(<<DefS("h", <<"y">>, <<Asg("t", B("*", y, I(2))), Ret(B("+", t, I(1)))>>),
                                             DefS("k0", <<>>, <<Asg("t", I(3)), Ret(t)>>),
                                             Asg("u", B("+", Call(V("h"), <<x>>), Call(V("k0"), <<>>))),
                                             Ret(B("+", V("u"), A(self, "f")))>>)>>)>>, ""),
                       Var(<<ClassC(<<MethM(<<Asg("g", B("+", x, I(1))),
                                             Ret(B("+", V("g"), A(self, "f")))>>)>>)>>, "collide"),
                       Var(<<ClassC(<<MethM(<<Asg("m", B("+", x, I(1))), Ret(V("m"))>>)>>)>>, "collide") >>
    [] f = "uf"  -> << Var(<<ClassC(<<MethM(MB1)>>),
                             Fn("sq", <<"x">>, <<Ret(B("*", x, x))>>),
                             Fn("inc", <<"x">>, <<Ret(B("+", x, I(1)))>>)>>, ""),
                       Var(<<ClassC(<<MethM(MB1)>>),
                             Fn("show", <<"x">>, <<Pr(<<x>>)>>),
                             Fn("add3", <<"x", "y">>, <<Asg("t", B("+", x, y)), Ret(B("+", t, I(3)))>>)>>, ""),
                       \* functions written on one line; the last function is the last thing of module a
                       \* (no client statements there: with the layout without a final newline the body
                       \* ends where the file ends)
                       Var(<<ClassC(<<MethM(MB1)>>),
                             OneLine(Fn("sq", <<"x">>, <<Ret(B("*", x, x))>>)),
                             OneLine(Fn("show", <<"x">>, <<Pr(<<x>>)>>)),
                             Fn("inc", <<"x">>, <<Ret(B("+", x, I(1)))>>)>>, "") >>
    [] f = "mm"  -> << [defs |-> <<ClassDm, ClassCm>>, feat |-> "", bdefs |-> <<>>],       \* both classes in module a
                       [defs |-> <<ClassDm>>, feat |-> "", bdefs |-> <<ClassCm>>] >>       \* C in module b, D in a
    [] OTHER -> <<>>

PoolOf(f) ==
  CASE f = "enc" -> <<
        Ent(<<Pr(<<A(o, "f")>>)>>, "", {}),
        Ent(<<Set(o, "f", I(5))>>, "", {}),
        Ent(<<Aug(o, "f", "+", I(2))>>, "", {}),
        Ent(<<Set(o, "f", B("*", A(o, "f"), I(2)))>>, "", {}),
        Ent(<<Aug(o, "f", "*", A(o, "f"))>>, "", {}),
        Ent(<<Pr(<<A(A(p, "h"), "f")>>)>>, "", {}),
        Ent(<<Set(A(p, "h"), "f", I(7))>>, "", {}),
        Ent(<<Aug(A(p, "h"), "f", "+", A(o, "f"))>>, "", {}),
        Ent(<<Set(o, "g", A(o, "f"))>>, "", {}),
        Ent(<<Pr(<<MC(o, "m", <<A(o, "f")>>)>>)>>, "", {}),
        Ent(<<Set(o, "f", MC(o, "m", <<I(2)>>))>>, "", {}),
        Ent(<<Aug(o, "f", "+", MC(o, "m", <<I(1)>>))>>, "", {}),
        Ent(<<Set(p, "f", I(3)), Pr(<<A(p, "f")>>)>>, "", {}),
        Ent(<<Asg("o", Call(K("C"), <<A(o, "f")>>))>>, "", {}),
        Ent(<<Pr(<<A(NewC(4), "f")>>)>>, "", {}),
        Ent(<<WithD(Pr(<<A(o, "f")>>), "comment")>>, "", {}),
        Ent(<<WithD(Pr(<<A(o, "g")>>), "semi"), Set(o, "f", I(6))>>, "", {}),
        Ent(<<WithD(Set(o, "f", B("+", A(o, "g"), I(3))), "wrap")>>, "", {}),
        Ent(<<WithD(Aug(A(p, "h"), "f", "+", A(o, "f")), "wrap")>>, "", {}),
        Ent(<<WithD(Set(o, "f", MC(o, "m", <<I(2)>>)), "bslash")>>, "", {}),
        Ent(<<WithD(Set(o, "f", I(5)), "comment")>>, "comment", {}),
        Ent(<<WithD(Set(o, "f", I(5)), "semi"), Pr(<<A(o, "g")>>)>>, "semi", {}),
        Ent(<<Aug(o, "f", "//", I(2))>>, "", {}),
        Ent(<<Aug(o, "f", "*", B("+", A(o, "g"), I(2)))>>, "augprec", {}),
        Ent(<<Aug(A(p, "h"), "f", "-", B("-", I(1), I(4)))>>, "augprec", {}),
        Ent(<<Ch2(A(o, "f"), A(o, "g"), I(4))>>, "chain", {}),
        Ent(<<Ch2(A(o, "g"), A(o, "f"), I(4))>>, "chain", {}),
        Ent(<<Ch2(A(o, "f"), V("w"), I(4)), Pr(<<V("w")>>)>>, "chain", {}) >>
    [] f = "fac" -> <<
        Ent(<<Asg("o", NewC(5))>>, "", {}),
        Ent(<<Pr(<<A(NewC(2), "f")>>)>>, "", {}),
        Ent(<<Pr(<<Is(o, "C")>>)>>, "", {}),
        Ent(<<Asg("k", K("C")), Asg("q", Call(V("k"), <<I(3)>>)), Pr(<<A(V("q"), "f")>>)>>, "", {}),
        Ent(<<Asg("o", Call(K("C"), <<A(NewC(1), "f")>>))>>, "", {}),
        Ent(<<Pr(<<A(Call(F("mk"), <<I(2)>>), "f")>>)>>, "", {2}),
        Ent(<<Pr(<<A(MC(o, "clone", <<>>), "f")>>)>>, "", {2}),
        Ent(<<Asg("o", Call(K("C"), <<KW("v", I(5))>>))>>, "", {}),
        Ent(<<WithD(Asg("o", NewC(6)), "comment")>>, "", {}),
        Ent(<<WithD(Asg("o", NewC(6)), "semi"), Pr(<<A(o, "f")>>)>>, "", {}) >>
    [] f = "mo" -> <<
        Ent(<<Pr(<<Call(F("fn"), <<I(1), I(2)>>)>>)>>, "", {}),
        Ent(<<Pr(<<MC(o, "m", <<I(3)>>)>>)>>, "", {}),
        Ent(<<Pr(<<Call(F("fn"), <<A(o, "f"), MC(o, "m", <<I(1)>>)>>)>>)>>, "", {}),
        Ent(<<Asg("w", Call(F("fn"), <<I(2), I(2)>>)), Pr(<<B("+", V("w"), I(1))>>)>>, "", {}),
        Ent(<<Ex(Call(F("g0"), <<>>))>>, "", {2}),
        Ent(<<Pr(<<MC(o, "n", <<>>), Call(F("fn"), <<KW("x", I(2)), KW("y", I(3))>>)>>)>>, "", {1, 3}) >>
    [] f = "ltf" -> <<
        Ent(<<Pr(<<MC(o, "m", <<I(1)>>)>>)>>, "", {}),
        Ent(<<Pr(<<MC(o, "m", <<A(o, "f")>>)>>)>>, "", {}),
        Ent(<<Asg("w", MC(o, "m", <<I(2)>>)), Pr(<<V("w")>>)>>, "", {}) >>
    [] f = "uf" -> <<
        Ent(<<Pr(<<B("*", A(o, "f"), A(o, "f"))>>)>>, "", {}),
        Ent(<<Pr(<<B("+", A(o, "f"), I(1))>>)>>, "", {}),
        Ent(<<Pr(<<B("*", B("+", A(o, "f"), I(1)), B("+", A(o, "f"), I(1)))>>)>>, "", {}),
        Ent(<<Pr(<<B("*", A(o, "g"), A(o, "f"))>>)>>, "", {}),
        Ent(<<Asg("w", B("+", A(o, "f"), I(2))), Asg("z", B("+", V("w"), I(3))), Pr(<<V("z")>>)>>, "", {}),
        Ent(<<Pr(<<I(5), I(6)>>)>>, "", {}),
        Ent(<<Asg("w", B("*", I(3), I(3))), Pr(<<V("w")>>)>>, "", {}),
        Ent(<<Pr(<<B("+", MC(o, "m", <<I(1)>>), I(1))>>)>>, "", {}),
        \* the same code as a function body except that a literal is the equal-valued float
        Ent(<<Pr(<<B("+", A(o, "f"), Flt(1))>>)>>, "", {}),
        Ent(<<Asg("w", B("+", A(o, "f"), I(2))), Asg("z", B("+", V("w"), Flt(3))), Pr(<<V("z")>>)>>, "", {2}),
        Ent(<<Pr(<<B("*", MC(o, "m", <<I(1)>>), MC(o, "m", <<I(1)>>))>>)>>, "impure", {1}),
        Ent(<<Asg("w", B("+", A(o, "f"), I(2))), Asg("z", B("+", V("w"), I(3))), Pr(<<V("z"), V("w")>>)>>,
            "livetemp", {2}) >>
    [] f = "mm" -> <<
        Ent(<<Pr(<<MC(o, "ma", <<I(3)>>)>>)>>, "", {}),
        Ent(<<Pr(<<MC(o, "mb", <<I(3)>>)>>)>>, "", {}),
        Ent(<<Pr(<<MC(o, "mc", <<I(1), I(4)>>)>>)>>, "", {}),
        Ent(<<Pr(<<MC(o, "md", <<A(o, "f")>>)>>)>>, "", {}),
        Ent(<<Pr(<<MC(o, "me", <<I(7)>>), MC(o, "n", <<>>)>>)>>, "", {}),
        Ent(<<Asg("w", MC(o, "mc", <<KW("x", I(2)), KW("y", I(1))>>)), Pr(<<V("w"), A(A(o, "g"), "k")>>)>>, "", {}) >>
    [] OTHER -> <<>>

PreA(f) == IF f = "enc" THEN <<Asg("o", NewC(1)), Asg("p", Call(K("D"), <<I(3)>>))>> ELSE <<Asg("o", NewC(1))>>
PreB(f) == IF f = "enc" THEN <<Asg("o", NewC(4)), Asg("p", Call(K("D"), <<I(5)>>))>> ELSE <<Asg("o", NewC(4))>>
Post(f) == IF f = "enc" THEN <<Pr(<<A(o, "f"), A(o, "g"), A(A(p, "h"), "f"), A(p, "f")>>)>>
           ELSE <<Pr(<<A(o, "f"), A(o, "g")>>)>>

\* Encapsulate, variants 2 and 3: module b ENDS with a write / an augmented write of the field (after
\* the final print: with the layout without a final newline the statement ends where the file ends)
LastB(f, v) == IF f = "enc" /\ v = 2 THEN <<Set(o, "f", I(8))>>
               ELSE IF f = "enc" /\ v = 3 THEN <<Aug(o, "f", "+", I(1))>>
               ELSE <<>>

Snips(f, idxs) == Flat([i \in DOMAIN idxs |-> PoolOf(f)[idxs[i]].ss])
\* module a can only have clients of C when C is defined there
ClientsInA(f, v) == ~(f = "mm" /\ Variants(f)[v].bdefs # <<>>) /\ ~(f = "uf" /\ v = 3)
PostM == <<Pr(<<A(o, "f"), A(A(o, "g"), "k")>>)>>
Build(f, v, im, ia, ib) ==
  LET defs == Variants(f)[v].defs
      names == IF im = "from" THEN [i \in DOMAIN defs |-> defs[i].name] ELSE <<>>
  IN IF f = "mm"
     THEN [Prog(defs,
                IF ClientsInA(f, v) THEN <<Asg("o", NewC(1))>> \o Snips(f, ia) \o PostM
                ELSE <<Asg("d", Call(K("D"), <<I(5)>>)), Pr(<<MC(V("d"), "bump", <<I(1)>>)>>)>>,
                <<Asg("o", NewC(4))>> \o Snips(f, ib) \o PostM, im, names)
           EXCEPT !.bdefs = Variants(f)[v].bdefs]
     ELSE IF ~ClientsInA(f, v)
     THEN Prog(defs, <<>>, PreB(f) \o Snips(f, ib) \o Post(f), im, names)
     ELSE Prog(defs, PreA(f) \o Snips(f, ia) \o Post(f), PreB(f) \o Snips(f, ib) \o Post(f) \o LastB(f, v), im, names)


\* the optional features a program uses
FeatsUsed(f, v, ia, ib) ==
  LET fs == <<Variants(f)[v].feat>> \o [i \in DOMAIN ia |-> PoolOf(f)[ia[i]].feat]
            \o [i \in DOMAIN ib |-> PoolOf(f)[ib[i]].feat]
  IN SelectSeq(fs, LAMBDA z : z # "")

(* ------------------------------------------------------------------ *)
(* Requests: every token that denotes a legitimate target is a site   *)
(* ------------------------------------------------------------------ *)
SitesOf(ta, tb, d) ==
  {[mod |-> "a", idx |-> i] : i \in {j \in DOMAIN ta : ta[j].d = d}}
  \cup {[mod |-> "b", idx |-> i] : i \in {j \in DOMAIN tb : tb[j].d = d}}

FuncLocals(fn) == {fn.body[i].s : i \in {j \in DOMAIN fn.body : fn.body[j].k = "assign"}} \ Range(fn.params)
GlobalFuncs(P) == {P.defs[i].name : i \in {j \in DOMAIN P.defs : P.defs[j].kind = "func"}}

\* one request per target; every token denoting the target is a site at
\* which the request can be issued (res.sites)
Requests(f, P) ==
  CASE f = "enc" -> {Req("enc", <<"field", "C", n>>, "C", n, "", FALSE) : n \in {"f", "g"}}
    [] f = "fac" -> {Req("fac", <<"class", "C">>, "C", "C", "create", gl) : gl \in BOOLEAN}
    [] f = "mo"  -> {Req("mo", <<"func", n>>, "", n, "MO", FALSE) : n \in GlobalFuncs(P)}
                    \cup {Req("mo", <<"method", "C", "m">>, "C", "m", "MO", FALSE)}
                    \cup {[Req("mo", <<"local", "C", "m", st.s>>, "C", st.s, "MO", FALSE) EXCEPT !.host = "m"] :
                            st \in NestedDefs(Method(P, "C", "m").body)}
    [] f = "ltf" -> {Req("ltf", <<"local", "C", "m", n>>, "C", n, "m", FALSE) : n \in FuncLocals(Method(P, "C", "m"))}
                    \cup UNION {{[Req("ltf", <<"nlocal", "C", "m", st.s, n>>, "C", n, st.s, FALSE) EXCEPT !.host = "m"] :
                                   n \in {st.b[i].s : i \in {j \in DOMAIN st.b : st.b[j].k = "assign"}} \ Range(st.ps)} :
                                 st \in NestedDefs(Method(P, "C", "m").body)}
    [] f = "uf"  -> {Req("uf", <<"func", n>>, "", n, "", FALSE) :
                       n \in {g \in GlobalFuncs(P) : UfShape(DefOf(P, g)) # "other"}}
    [] f = "mm"  -> {[Req("mm", <<"method", "C", n>>, "C", n, "mv", FALSE) EXCEPT !.attr = "g"] :
                       n \in {"ma", "mb", "mc", "md", "me"}}
    [] OTHER -> {}

(* ------------------------------------------------------------------ *)
(* State machine: build a program, then issue one request.  The       *)
(* request step records, as a function of the scenario only, what the *)
(* spec derives about it (res), so that every invariant below is a    *)
(* cheap comparison.                                                  *)
(* ------------------------------------------------------------------ *)
Allowed(f, v, i) ==
  LET e == PoolOf(f)[i]
  IN (e.vs = {} \/ v \in e.vs) /\ (e.feat = "" \/ e.feat \in Features)

NoRes == [p1 |-> Prog(<<>>, <<>>, <<>>, "", <<>>), o0 |-> [a |-> <<>>, b |-> <<>>], o1 |-> [a |-> <<>>, b |-> <<>>],
          refusable |-> FALSE, sites |-> {}, nset |-> 0, nget |-> 0, expset |-> 0, expget |-> 0,
          leftW |-> 0, leftR |-> 0]

Init ==
  /\ fam \in Families
  /\ variant \in {v \in DOMAIN Variants(fam) : Variants(fam)[v].feat = "" \/ Variants(fam)[v].feat \in Features}
  /\ imp \in {"import", "from"}
  /\ sa = <<>> /\ sb = <<>>
  /\ phase = "build"
  /\ req = NoReq
  /\ res = NoRes

AddA(i) ==
  /\ phase = "build" /\ sb = <<>> /\ Len(sa) < MaxA /\ Len(sa) + Len(sb) < MaxTotal
  /\ ClientsInA(fam, variant)
  /\ Allowed(fam, variant, i)
  /\ Len(FeatsUsed(fam, variant, Append(sa, i), sb)) <= 1
  /\ sa' = Append(sa, i)
  /\ UNCHANGED <<fam, variant, imp, sb, phase, req, res>>

AddB(i) ==
  /\ phase = "build" /\ Len(sb) < MaxB /\ Len(sa) + Len(sb) < MaxTotal
  /\ Allowed(fam, variant, i)
  /\ Len(FeatsUsed(fam, variant, sa, Append(sb, i))) <= 1
  /\ sb' = Append(sb, i)
  /\ UNCHANGED <<fam, variant, imp, sa, phase, req, res>>

ExclEnc(q) == {"__init__", q.get, q.set}
EncCount(Op(_, _, _), q, P) ==
  SumSeq([i \in DOMAIN P.defs |->
            IF P.defs[i].kind = "class"
            THEN SumSeq([j \in DOMAIN P.defs[i].methods |->
                           IF P.defs[i].name = q.cls /\ P.defs[i].methods[j].name \in ExclEnc(q) THEN 0
                           ELSE BodyCount(Op, q, P.defs[i].methods[j].body, P.defs[i].name)])
            ELSE BodyCount(Op, q, P.defs[i].body, "")])
  + BodyCount(Op, q, P.a, "") + BodyCount(Op, q, P.b, "")

Derive(r, P) ==
  LET P1 == Refactor(r, P)
      enc == r.kind = "enc"
  IN [p1 |-> P1, o0 |-> Obs(P), o1 |-> Obs(P1),
      refusable |-> Refusable(r, P),
      sites |-> SitesOf(Toks(P, "a"), Toks(P, "b"), r.tgt),
      nset |-> IF enc THEN CountProg(P1, "mcall", r.set) ELSE 0,
      nget |-> IF enc THEN CountProg(P1, "mcall", r.get) ELSE 0,
      expset |-> IF enc THEN EncCount(StmtWrites, r, P) + EncCount(StmtAugs, r, P) ELSE 0,
      expget |-> IF enc THEN EncCount(StmtReads, r, P) + EncCount(StmtAugs, r, P) ELSE 0,
      leftW |-> IF enc THEN EncCount(StmtWrites, r, P1) + EncCount(StmtAugs, r, P1) ELSE 0,
      leftR |-> IF enc THEN EncCount(StmtReads, r, P1) ELSE 0]

Request(r, P) ==
  /\ phase = "build"
  /\ phase' = "done"
  /\ req' = r
  /\ res' = Derive(r, P)
  /\ UNCHANGED <<fam, variant, imp, sa, sb>>

Next ==
  \/ \E i \in DOMAIN PoolOf(fam) : AddA(i) \/ AddB(i)
  \/ LET P == Build(fam, variant, imp, sa, sb)
     IN \E r \in Requests(fam, P) : Request(r, P)

Spec == Init /\ [][Next]_vars

(* ------------------------------------------------------------------ *)
(* What TLC checks                                                    *)
(* ------------------------------------------------------------------ *)
Done == phase = "done"
P0 == Build(fam, variant, imp, sa, sb)

TypeOK ==
  /\ fam \in Families /\ variant \in DOMAIN Variants(fam) /\ imp \in {"import", "from"}
  /\ phase \in {"build", "done"}
  /\ Len(sa) <= MaxA /\ Len(sb) <= MaxB

\* the pools only build programs that run to the end
Prog0Runs == Done => Clean(res.o0.a) /\ Clean(res.o0.b)

\* the refactoring, as specified, does not change what any entry module prints
ObsPreserved == Done => res.o1 = res.o0

\* a request that has to be refused leaves the program alone
RefusedUnchanged == Done /\ Guards /\ res.refusable => res.p1 = P0

\* Encapsulate: every write / augmented write is exactly one setter call, and none is left
WritesBecomeSetters == Done /\ req.kind = "enc" => res.nset = res.expset /\ res.leftW = 0
\* every read is one getter call, an augmented write reads once, and none is left
ReadsBecomeGetters == Done /\ req.kind = "enc" => res.nget = res.expget /\ res.leftR = 0

\* every request can be issued somewhere: some token denotes its target
TargetHasSite == Done => res.sites # {}

=============================================================================
