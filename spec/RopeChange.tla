----------------------------- MODULE RopeChange -----------------------------
(***************************************************************************)
(* One call of Project.do(ChangeSet) or History.undo() on a composite      *)
(* change, at the grain of rope/base/change.py:                            *)
(*                                                                         *)
(*   ChangeSet.do:   for change in changes: change.do(job_set); done += .. *)
(*                   except: for change in <order>(done): change.undo()    *)
(*   leaf.do:        job_set.started_job()   -- raises if handle stopped   *)
(*                   fs command + observers                                *)
(*                   job_set.finished_job()  -- raises if handle stopped   *)
(*                                                                         *)
(* One action per step at which something can go wrong: JobStart, FsOp /   *)
(* FsFail / FsNatural, JobFinish, RollbackStep.  Stop may fire before any  *)
(* check.  The two implementation choices that decide atomicity are spec   *)
(* constants, set to what the code does:                                   *)
(*   RollbackOrder  "forward" (pinned rope) | "reverse" (repaired)         *)
(*   SelfRevert     FALSE (pinned: a leaf whose finished_job raises stays  *)
(*                  applied and unrecorded) | TRUE (repaired: the leaf     *)
(*                  reverts itself before re-raising)                      *)
(* The composite is chosen leaf by leaf (ChooseLeaf), so TLC enumerates    *)
(* every composite whose prefix is executable, including dependent ones    *)
(* (create folder; create file in it; move into it).                       *)
(***************************************************************************)
EXTENDS RopeFS, TLC

CONSTANTS MaxLeaves,       \* leaves per composite
          RollbackOrder,   \* "forward" | "reverse"
          SelfRevert,      \* BOOLEAN
          InitTrees,       \* set of initial trees
          Directions,      \* subset of {"do","undo"}
          AllowFault,      \* BOOLEAN: one fs command may raise
          AllowStop,       \* BOOLEAN: the task handle may be stopped
          AllowNatural,    \* BOOLEAN: a leaf may fail on its own (missing file..)
          FullHistory,     \* BOOLEAN: the call starts with the undo list at its limit (limit 1, one entry, no
                           \* redo): a recorded change replaces the oldest entry, a failed one drops nothing
          AllowPreEdit     \* BOOLEAN: between building/previewing the change and performing it, a file
                           \* may be edited (the call must restore the contents of just before the call)

VARIABLES tree,      \* current project tree
          init,      \* tree before anything (for rendering)
          snap0,     \* tree when the call under test began
          cs,        \* Seq(leaf): the composite, in order of `changes`
          olds,      \* Seq(Int): old contents captured by W leaves
          dir,       \* "do" | "undo"
          phase,     \* "build" | "choose" | "start" | "op" | "finish" | "rollback" | "end"
          i,         \* index in cs of the current leaf
          done,      \* Seq(index): leaves recorded in ChangeSet's `done`
          rb,        \* Seq(index): rollback work list
          stopped,   \* task handle stopped
          stopAt,    \* <<phase, i>> when Stop fired, <<>> if never
          faultAt,   \* index of the leaf whose fs command raised, 0 if none
          cause,     \* "" | "fault" | "natural" | "stop" | "notimpl"
          result,    \* "none" | "ok" | "error" | "rberror"
          hist,      \* <<len(undo_list), len(redo_list)>>
          hist0,
          pre,       \* path edited behind rope's back after the change object was built and previewed
                     \* (<< >>: none, <<"-">>: not decided yet)
          ops        \* Seq of fs commands issued by the call under test

vars == <<tree, init, snap0, cs, olds, dir, phase, i, done, rb, stopped,
          stopAt, faultAt, cause, result, hist, hist0, pre, ops>>

FsCmd(name, p, q) == [op |-> name, p |-> p, q |-> q]

\* fs command issued by performing leaf l
DoCmd(l) ==
  CASE l.k = "W"  -> FsCmd("write", l.p, NoPath)
    [] l.k = "CF" -> FsCmd("create_file", l.p, NoPath)
    [] l.k = "CD" -> FsCmd("create_folder", l.p, NoPath)
    [] l.k = "MV" -> FsCmd("move", l.p, l.q)
    [] l.k = "RM" -> FsCmd("remove", l.p, NoPath)
\* fs command issued by undoing leaf l
UndoCmd(l) ==
  CASE l.k = "W"  -> FsCmd("write", l.p, NoPath)
    [] l.k = "CF" -> FsCmd("remove", l.p, NoPath)
    [] l.k = "CD" -> FsCmd("remove", l.p, NoPath)
    [] l.k = "MV" -> FsCmd("move", l.q, l.p)
    [] l.k = "RM" -> FsCmd("none", l.p, NoPath)

Reverse(s) == [j \in 1..Len(s) |-> s[Len(s) + 1 - j]]
Ordered(s) == IF RollbackOrder = "reverse" THEN Reverse(s) ELSE s

Init ==
  /\ init \in InitTrees
  /\ tree = init
  /\ snap0 = init
  /\ cs = << >>
  /\ olds = << >>
  /\ dir \in Directions
  /\ phase = IF dir = "do" THEN "choose" ELSE "build"
  /\ i = 0
  /\ done = << >>
  /\ rb = << >>
  /\ stopped = FALSE
  /\ stopAt = << >>
  /\ faultAt = 0
  /\ cause = ""
  /\ result = "none"
  /\ hist = IF dir = "do" THEN (IF FullHistory THEN <<1, 0>> ELSE <<1, 1>>) ELSE <<2, 0>>
  /\ hist0 = hist
  /\ pre = IF dir = "do" /\ AllowPreEdit THEN <<"-">> ELSE << >>
  /\ ops = << >>

(***************************************************************************)
(* undo direction, preparation: build and perform the composite without    *)
(* faults (it is on top of the undo list when the call under test begins). *)
(***************************************************************************)
BuildLeaf(l) ==
  /\ phase = "build"
  /\ Len(cs) < MaxLeaves
  /\ LeafEnabled(tree, l)
  /\ cs' = Append(cs, l)
  /\ olds' = Append(olds, IF l.k = "W" THEN tree[l.p] ELSE 0)
  /\ tree' = LeafApply(tree, l)
  /\ UNCHANGED <<init, snap0, dir, phase, i, done, rb, stopped, stopAt, faultAt,
                 cause, result, hist, hist0, pre, ops>>

BeginUndo ==
  /\ phase = "build"
  /\ Len(cs) >= 1
  /\ snap0' = tree
  /\ i' = Len(cs)
  /\ phase' = "start"
  /\ UNCHANGED <<tree, init, cs, olds, dir, done, rb, stopped, stopAt, faultAt,
                 cause, result, hist, hist0, pre, ops>>

PreContent == 3
\* after the ChangeSet object exists (and its description was computed) a file gets new contents;
\* the call under test starts from that tree
PreEdit(p) ==
  /\ phase = "choose" /\ pre = <<"-">> /\ cs = << >>
  /\ IsFilePath(p) /\ IsFile(tree, p)
  /\ tree' = [tree EXCEPT ![p] = PreContent]
  /\ snap0' = tree'
  /\ pre' = p
  /\ UNCHANGED <<init, cs, olds, dir, phase, i, done, rb, stopped, stopAt, faultAt, cause, result,
                 hist, hist0, ops>>
NoPreEdit ==
  /\ phase = "choose" /\ pre = <<"-">> /\ cs = << >>
  /\ pre' = << >>
  /\ UNCHANGED <<tree, init, snap0, cs, olds, dir, phase, i, done, rb, stopped, stopAt, faultAt, cause,
                 result, hist, hist0, ops>>

(***************************************************************************)
(* do direction: the next leaf of the composite is chosen when its turn    *)
(* comes; it need not be enabled (natural failure) but must be legal.      *)
(***************************************************************************)
ChooseLeaf(l) ==
  /\ phase = "choose"
  /\ pre # <<"-">>
  /\ Len(cs) < MaxLeaves
  /\ LeafLegal(tree, l)
  /\ IF AllowNatural THEN TRUE ELSE LeafEnabled(tree, l)
  /\ cs' = Append(cs, l)
  /\ olds' = Append(olds, 0)
  /\ i' = Len(cs) + 1
  /\ phase' = "start"
  /\ UNCHANGED <<tree, init, snap0, dir, done, rb, stopped, stopAt, faultAt,
                 cause, result, hist, hist0, pre, ops>>

\* all leaves performed: ChangeSet.do returns, History.do records the change
EndOkDo ==
  /\ phase = "choose"
  /\ Len(cs) >= 1
  /\ phase' = "end"
  /\ result' = "ok"
  /\ hist' = IF FullHistory THEN <<1, 0>> ELSE <<hist[1] + 1, 0>>
  /\ UNCHANGED <<tree, init, snap0, cs, olds, dir, i, done, rb, stopped, stopAt,
                 faultAt, cause, hist0, pre, ops>>

(***************************************************************************)
(* The task handle is stopped by another thread / an observer.  Only the   *)
(* position relative to the two checks matters, so Stop is enabled right   *)
(* before each check.                                                      *)
(***************************************************************************)
Stop ==
  /\ AllowStop
  /\ ~stopped
  /\ phase \in {"start", "finish"}
  /\ stopped' = TRUE
  /\ stopAt' = <<phase, i>>
  /\ UNCHANGED <<tree, init, snap0, cs, olds, dir, phase, i, done, rb, faultAt,
                 cause, result, hist, hist0, pre, ops>>

\* something raised inside the loop of ChangeSet.do / ChangeSet.undo
Raise(c) ==
  /\ cause' = c
  /\ rb' = Ordered(done)
  /\ phase' = "rollback"

\* started_job: check_status()
JobStart ==
  /\ phase = "start"
  /\ IF stopped
       THEN Raise("stop") /\ UNCHANGED <<tree, olds, ops>>
       ELSE phase' = "op" /\ UNCHANGED <<tree, olds, ops, cause, rb>>
  /\ UNCHANGED <<init, snap0, cs, dir, i, done, stopped, stopAt, faultAt, result,
                 hist, hist0, pre>>

\* what performing the current leaf means in this direction
CurEnabled == IF dir = "do" THEN LeafEnabled(tree, cs[i])
              ELSE HasInverse(cs[i]) /\ InverseEnabled(tree, cs[i], olds[i])
CurApply   == IF dir = "do" THEN LeafApply(tree, cs[i])
              ELSE InverseApply(tree, cs[i], olds[i])
CurCmd     == IF dir = "do" THEN DoCmd(cs[i]) ELSE UndoCmd(cs[i])

\* the fs command of the current leaf succeeds (observers are then notified)
FsOp ==
  /\ phase = "op"
  /\ CurEnabled
  /\ tree' = CurApply
  /\ olds' = IF dir = "do" /\ cs[i].k = "W" THEN [olds EXCEPT ![i] = tree[cs[i].p]] ELSE olds
  /\ ops' = Append(ops, CurCmd)
  /\ phase' = "finish"
  /\ UNCHANGED <<init, snap0, cs, dir, i, done, rb, stopped, stopAt, faultAt, cause,
                 result, hist, hist0, pre>>

\* the fs command raises OSError before touching anything (injected fault)
FsFail ==
  /\ phase = "op"
  /\ AllowFault
  /\ faultAt = 0
  /\ CurEnabled
  /\ faultAt' = i
  /\ Raise("fault")
  /\ UNCHANGED <<tree, init, snap0, cs, olds, dir, i, done, stopped, stopAt, result,
                 hist, hist0, pre, ops>>

\* the leaf cannot be performed in this tree: rope or the OS raises, no effect
FsNatural ==
  /\ phase = "op"
  /\ ~CurEnabled
  /\ Raise(IF dir = "undo" /\ ~HasInverse(cs[i]) THEN "notimpl" ELSE "natural")
  /\ UNCHANGED <<tree, init, snap0, cs, olds, dir, i, done, stopped, stopAt, faultAt,
                 result, hist, hist0, pre, ops>>

\* the inverse of what FsOp just did, used by SelfRevert
RevertEnabled == IF dir = "do" THEN HasInverse(cs[i]) /\ InverseEnabled(tree, cs[i], olds[i])
                 ELSE LeafEnabled(tree, cs[i])
RevertApply   == IF dir = "do" THEN InverseApply(tree, cs[i], olds[i])
                 ELSE LeafApply(tree, cs[i])
RevertCmd     == IF dir = "do" THEN UndoCmd(cs[i]) ELSE DoCmd(cs[i])

NextIndex == IF dir = "do" THEN i ELSE i - 1

\* finished_job: check_status() passes; the ChangeSet appends the leaf to done
FinishOk ==
  /\ phase = "finish"
  /\ ~stopped
  /\ done' = Append(done, i)
  /\ IF dir = "do"
       THEN phase' = "choose" /\ UNCHANGED <<i, hist, result>>
       ELSE IF i > 1
              THEN phase' = "start" /\ i' = i - 1 /\ UNCHANGED <<hist, result>>
              ELSE \* ChangeSet.undo returns; History moves the change to redo
                   /\ phase' = "end" /\ i' = 0 /\ result' = "ok"
                   /\ hist' = <<hist[1] - 1, hist[2] + 1>>
  /\ UNCHANGED <<tree, init, snap0, cs, olds, dir, rb, stopped, stopAt, faultAt,
                 cause, hist0, pre, ops>>

\* finished_job raises; pinned rope: the applied leaf is neither recorded nor reverted
FinishStopPlain ==
  /\ phase = "finish"
  /\ stopped
  /\ ~SelfRevert
  /\ Raise("stop")
  /\ UNCHANGED <<tree, init, snap0, cs, olds, dir, i, done, stopped, stopAt, faultAt,
                 result, hist, hist0, pre, ops>>

\* finished_job raises; repaired rope: the leaf reverts itself, then re-raises
FinishStopRevert ==
  /\ phase = "finish"
  /\ stopped
  /\ SelfRevert
  /\ RevertEnabled
  /\ tree' = RevertApply
  /\ ops' = Append(ops, RevertCmd)
  /\ Raise("stop")
  /\ UNCHANGED <<init, snap0, cs, olds, dir, i, done, stopped, stopAt, faultAt,
                 result, hist, hist0, pre>>

\* ... but the revert itself raises (RemoveResource.undo): that exception reaches
\* the ChangeSet's handler, which rolls back `done` with the leaf still applied
FinishStopRevertFails ==
  /\ phase = "finish"
  /\ stopped
  /\ SelfRevert
  /\ ~RevertEnabled
  /\ Raise("notimpl")
  /\ UNCHANGED <<tree, init, snap0, cs, olds, dir, i, done, stopped, stopAt,
                 faultAt, result, hist, hist0, pre, ops>>

\* the except-branch loop: re-invert every recorded leaf (default job set:
\* no interruption checks, and the single fault is already spent)
RollbackStep ==
  /\ phase = "rollback"
  /\ IF rb = << >>
       THEN /\ phase' = "end"
            /\ result' = "error"
            /\ UNCHANGED <<tree, rb, ops>>
       ELSE LET k == Head(rb)
                l == cs[k]
                en == IF dir = "do" THEN HasInverse(l) /\ InverseEnabled(tree, l, olds[k])
                                    ELSE LeafEnabled(tree, l)
            IN IF en
                 THEN /\ tree' = IF dir = "do" THEN InverseApply(tree, l, olds[k])
                                               ELSE LeafApply(tree, l)
                      /\ ops' = Append(ops, IF dir = "do" THEN UndoCmd(l) ELSE DoCmd(l))
                      /\ rb' = Tail(rb)
                      /\ UNCHANGED <<phase, result>>
                 ELSE /\ phase' = "end"
                      /\ result' = "rberror"
                      /\ UNCHANGED <<tree, rb, ops>>
  /\ UNCHANGED <<init, snap0, cs, olds, dir, i, done, stopped, stopAt, faultAt, cause,
                 hist, hist0, pre>>

Next ==
  \/ \E l \in AllLeaves : BuildLeaf(l)
  \/ BeginUndo
  \/ \E p \in FilePaths : PreEdit(p)
  \/ NoPreEdit
  \/ \E l \in AllLeaves : ChooseLeaf(l)
  \/ EndOkDo
  \/ Stop
  \/ JobStart
  \/ FsOp
  \/ FsFail
  \/ FsNatural
  \/ FinishOk
  \/ FinishStopPlain
  \/ FinishStopRevert
  \/ FinishStopRevertFails
  \/ RollbackStep

Spec == Init /\ [][Next]_vars

(***************************************************************************)
(* Properties (C10)                                                        *)
(***************************************************************************)
Ended  == phase = "end"
Failed == Ended /\ result # "ok"

\* leaves that were performed at some point of the call (need an inverse to
\* be rolled back): everything in done, plus the current one if it was
\* applied when the stop was seen at its finished_job.
NeedsRemoveInverse ==
  dir = "do" /\ \E k \in 1..Len(cs) :
     cs[k].k = "RM" /\ (k < Len(cs) \/ (cause \in {"stop", "notimpl"} /\ stopAt = <<"finish", k>>))

TypeOK ==
  /\ tree \in Trees
  /\ phase \in {"build", "choose", "start", "op", "finish", "rollback", "end"}
  /\ result \in {"none", "ok", "error", "rberror"}

TreeIsTree == TreeOK(tree)

\* all-or-nothing, tree part
AtomicTree == Failed => tree = snap0
\* same, leaving aside composites that would have to undo a RemoveResource
AtomicTreeNoRemove == (Failed /\ ~NeedsRemoveInverse) => tree = snap0
\* no stray file or folder
NoStray == Failed /\ ~NeedsRemoveInverse => \A p \in Paths : Present(tree, p) => Present(snap0, p)
\* history part
HistUnchanged == Failed => hist = hist0
\* the error is reported
ErrorReported == (Ended /\ (faultAt # 0 \/ cause # "")) => result # "ok"
\* the rollback never hits a disabled inverse (except the missing Remove inverse)
RollbackRuns == (Ended /\ result = "rberror") => NeedsRemoveInverse
\* success means every leaf applied
OkMeansAll == (Ended /\ result = "ok") => Len(done) = Len(cs) \/ dir = "do"

\* bound for TLC (every behaviour is finite anyway)
=============================================================================
