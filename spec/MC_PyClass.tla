----------------------------- MODULE MC_PyClass -----------------------------
EXTENDS PyClass, Json

ShowV(v) == CASE v.t = "int" -> ToString(v.n)
              [] v.t = "float" -> ToString(v.n) \o ".0"
              [] v.t = "bool" -> IF v.n = 1 THEN "True" ELSE "False"
              [] v.t = "none" -> "None"
              [] v.t = "str" -> v.s
              [] v.t = "err" -> "ERR"
              [] OTHER -> "<obj>"
ShowObs(o1) == [i \in DOMAIN o1 |-> [j \in DOMAIN o1[i] |-> ShowV(o1[i][j])]]
TokText(ts) == [i \in DOMAIN ts |-> ts[i].t]

\* one JSON line per (program, request): the scenario (token streams, the
\* site) and everything the spec predicts (output of both entries, refusal,
\* getter / setter counts, its own refactored program as token text)
Behaviour ==
  [fam |-> fam, variant |-> variant, imp |-> imp, sa |-> sa, sb |-> sb,
   feats |-> FeatsUsed(fam, variant, sa, sb),
   req |-> req, sites |-> res.sites,
   toksA |-> Toks(P0, "a"), toksB |-> Toks(P0, "b"),
   obsA |-> ShowObs(res.o0.a), obsB |-> ShowObs(res.o0.b),
   refusable |-> res.refusable,
   changed |-> res.p1 # P0,
   nget |-> res.expget, nset |-> res.expset,
   textA1 |-> TokText(Toks(res.p1, "a")), textB1 |-> TokText(Toks(res.p1, "b")),
   obsA1 |-> ShowObs(res.o1.a), obsB1 |-> ShowObs(res.o1.b)]
Export == Done => PrintT(<<"BEH", ToJson(Behaviour)>>)
=============================================================================
