---------------------------- MODULE TracePersist ----------------------------
(***************************************************************************)
(* Trace validation for C18: the file-system events of a real              *)
(* Project.close() (open for writing, write, close, replace), recorded by  *)
(* bind/c18.py, are replayed on the content classes of RopePersist.  The   *)
(* invariant LiveReadable is evaluated after every recorded event: no      *)
(* name the reader reads ("live") may ever hold a content on which the     *)
(* real reader raises.  What the reader does with a partial file is        *)
(* measured on the implementation and given as `tolerant`.                 *)
(* All traces of a batch are checked in one TLC run (one initial state     *)
(* per trace); a trace that cannot be consumed to its end deadlocks.       *)
(***************************************************************************)
EXTENDS Naturals, Sequences, FiniteSets, TLC, Json, IOUtils

Batch == JsonDeserialize(IOEnv.TRACE_FILE)
Traces == Batch.traces
Tolerant == Batch.tolerant

VARIABLES tid, l, st

vars == <<tid, l, st>>

Ev == Traces[tid].events
NamesOf(t) == { Traces[t].events[k].name : k \in 1..Len(Traces[t].events) }
               \cup { Traces[t].events[k].dst : k \in 1..Len(Traces[t].events) }
IsLive(t, n) == n \in { Traces[t].live[k] : k \in 1..Len(Traces[t].live) }

TraceInit ==
  /\ tid \in 1..Len(Traces)
  /\ l = 1
  /\ st = [n \in NamesOf(tid) |->
             [c |-> IF IsLive(tid, n) THEN "old" ELSE "missing", open |-> FALSE]]

IsEvent(op) == l <= Len(Ev) /\ Ev[l].op = op /\ l' = l + 1 /\ UNCHANGED tid

TraceOpen ==
  /\ IsEvent("open")
  /\ ~st[Ev[l].name].open
  /\ st' = [st EXCEPT ![Ev[l].name] = [c |-> "empty", open |-> TRUE]]

TraceWrite ==
  /\ IsEvent("write")
  /\ st[Ev[l].name].open
  /\ st' = [st EXCEPT ![Ev[l].name].c = "partial"]

TraceClose ==
  /\ IsEvent("close")
  /\ st[Ev[l].name].open
  /\ st' = [st EXCEPT ![Ev[l].name] = [c |-> "new", open |-> FALSE]]

TraceReplace ==
  /\ IsEvent("replace")
  /\ st' = [st EXCEPT ![Ev[l].dst] = st[Ev[l].name],
                      ![Ev[l].name] = [c |-> "missing", open |-> FALSE]]

TraceRemove ==
  /\ IsEvent("remove")
  /\ st' = [st EXCEPT ![Ev[l].name] = [c |-> "missing", open |-> FALSE]]

Finished == l > Len(Ev) /\ UNCHANGED vars

TraceNext == TraceOpen \/ TraceWrite \/ TraceClose \/ TraceReplace \/ TraceRemove \/ Finished

TraceSpec == TraceInit /\ [][TraceNext]_vars

ReadResult(c) ==
  CASE c \in {"missing", "empty"} -> "none"
    [] c = "old" -> "old"
    [] c = "new" -> "new"
    [] c = "partial" -> IF Tolerant THEN "none" ELSE "raises"

\* evaluated after every event: a crash here must leave an openable project
LiveReadable == \A n \in DOMAIN st : IsLive(tid, n) => ReadResult(st[n].c) # "raises"
\* at the end of the save every live file is the complete new version
SavedIsNew == l > Len(Ev) => \A n \in DOMAIN st : IsLive(tid, n) => st[n].c = "new" /\ ~st[n].open
=============================================================================
