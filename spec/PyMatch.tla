------------------------------ MODULE PyMatch ------------------------------
(***************************************************************************)
(* Property C19: pattern matching and restructuring rewrite exactly the    *)
(* real instances.                                                         *)
(*                                                                         *)
(* A behaviour builds a small module statement by statement (AddStmt),     *)
(* then derives a pattern from the module itself (Abstract): a focus - an  *)
(* expression node or a run of 1-2 statements - in which at most two       *)
(* sub-expressions are replaced by wildcards (the same wildcard twice when *)
(* they are equal), so the pattern has an instance by construction.  The   *)
(* derived operators then say, at tree level and with no reference to      *)
(* text, which nodes are instances (AllMatches), which of them lie in a    *)
(* region, and what the module is after every instance was replaced by a   *)
(* goal (Rewrite).  The binding replays module / pattern / goal / region   *)
(* on rope's SimilarFinder and Restructure and compares.                   *)
(***************************************************************************)
EXTENDS PyTree

CONSTANTS Names,        \* identifiers used in expressions
          Nums,         \* number spellings
          Strs,         \* string spellings
          BinOps, UnOps, BoolOps, CmpOps,
          Kinds,        \* composite expression kinds that may be generated
          MaxExprSize,  \* nodes per top-level expression
          InnerExprSize,\* nodes per expression inside compound statements
          StmtKindsOn,  \* statement kinds that may be generated
          MaxStmts,     \* statements at module level
          MaxModSize,   \* nodes per module
          MaxWild,      \* wildcards per pattern (0..2)
          FocusKinds,   \* subset of {"expr", "stmts"}: what patterns are made from
          Sim,          \* TRUE: random behaviours (SimSpec); the statement pool is not enumerated
          DecoKinds     \* subset of {"none","focus","focusbr","bound","boundbr"}

VARIABLES mod,     \* the module (a Block)
          stage,   \* "build" | "done"
          pat,     \* the pattern: an expression tree or a Block of statements
          exact,   \* wildcard names that only match the name itself
          focus,   \* [bp, i, n]: n = 0: expression at path bp; n > 0: statements i..i+n-1 of Block bp
          wpaths,  \* paths (inside the focus) that were abstracted
          deco,    \* layout decisions used when the module is written out
          matches  \* derived: the instances of pat in mod (AllMatchesOf), kept in the state
vars == <<mod, stage, pat, exact, focus, wpaths, deco, matches>>

----------------------------------------------------------------------------
\* Expression universe by number of nodes
Splits2(n) == {<<i, n - i>> : i \in 1..(n - 1)}
Splits3(n) == {s \in {<<i, j, n - i - j>> : i \in 1..(n - 2), j \in 1..(n - 2)} : s[3] >= 1}

Leaves == {Name(x) : x \in Names} \cup {Num(x) : x \in Nums} \cup {Str(x) : x \in Strs}
Callable(e) == e.k \in {"Name", "Attribute"}

\* E is a sequence of sets: E[i] = expressions of exactly i nodes, i < n
Level(n, E) ==
  LET un  == IF "UnaryOp" \in Kinds THEN {UnOp(o, e) : o \in UnOps, e \in E[n - 1]} ELSE {}
      at  == IF "Attribute" \in Kinds THEN {Attr(e, "p") : e \in E[n - 1]} ELSE {}
      c0  == IF "Call" \in Kinds THEN {Call(f, <<>>) : f \in {e \in E[n - 1] : Callable(e)}} ELSE {}
      lam == (IF "Lambda" \in Kinds THEN {Lam("", e) : e \in E[n - 1]} ELSE {})
             \* lambda *a: e  /  lambda **a: e  (same class, a different optional field present)
             \cup (IF "LambdaStar" \in Kinds
                   THEN {Node("Lambda", "", <<Node("arguments", "", <<Leaf(k, "a")>>), e>>) :
                            k \in {"vararg", "kwarg"}, e \in E[n - 1]}
                   ELSE {})
      two == UNION { LET A == E[s[1]]  B == E[s[2]] IN
                (IF "BinOp" \in Kinds THEN {BinOp(o, l, r) : o \in BinOps, l \in A, r \in B} ELSE {})
           \cup (IF "BoolOp" \in Kinds THEN {BoolOp(o, <<l, r>>) : o \in BoolOps, l \in A, r \in B} ELSE {})
           \cup (IF "Compare" \in Kinds THEN {Cmp(o, l, r) : o \in CmpOps, l \in A, r \in B} ELSE {})
           \cup (IF "Subscript" \in Kinds THEN {Sub(l, r) : l \in A, r \in B} ELSE {})
           \cup (IF "Tuple" \in Kinds THEN {Tup(<<l, r>>) : l \in A, r \in B} ELSE {})
           \* one-sided slices l[r:]  l[:r]  l[::r]
           \cup (IF "Slice" \in Kinds THEN {Sub(l, Node("Slice", v, <<r>>)) : v \in {"l", "u", "s"}, l \in A, r \in B} ELSE {})
           \cup (IF "Call" \in Kinds THEN {Call(f, <<a>>) : f \in {e \in A : Callable(e)}, a \in B} ELSE {})
           \cup (IF "Kw" \in Kinds THEN {Call(f, <<Kw("k", a)>>) : f \in {e \in A : Callable(e)}, a \in B} ELSE {})
              : s \in Splits2(n - 1) }
      three == UNION { LET A == E[s[1]]  B == E[s[2]]  C == E[s[3]] IN
                (IF "IfExp" \in Kinds THEN {IfExp(a, b, c) : a \in A, b \in B, c \in C} ELSE {})
           \cup (IF "Call" \in Kinds THEN {Call(f, <<a, b>>) : f \in {e \in A : Callable(e)}, a \in B, b \in C} ELSE {})
           \cup (IF "Slice" \in Kinds THEN {Sub(a, Node("Slice", "lu", <<b, c>>)) : a \in A, b \in B, c \in C} ELSE {})
           \cup (IF "BoolOp3" \in Kinds THEN {BoolOp(o, <<a, b, c>>) : o \in BoolOps, a \in A, b \in B, c \in C} ELSE {})
              : s \in Splits3(n - 1) }
  IN un \cup at \cup c0 \cup lam \cup two \cup three

\* AllE[i] = expressions of exactly i nodes, built once up to MaxExprSize
RECURSIVE BuildE(_, _)
BuildE(E, n) == IF Len(E) >= n THEN E ELSE BuildE(Append(E, Level(Len(E) + 1, E)), n)
AllE == BuildE(<<Leaves>>, IF MaxExprSize > InnerExprSize THEN MaxExprSize ELSE InnerExprSize)
ExprsUpTo(n) == UNION {AllE[i] : i \in 1..n}

Targets == {Name(x) : x \in Names}
           \cup (IF "Attribute" \in Kinds THEN {Attr(Name(x), "p") : x \in Names} ELSE {})

SimpleStmts(n) ==
     (IF "Expr" \in StmtKindsOn THEN {ExprS(e) : e \in ExprsUpTo(n)} ELSE {})
\cup (IF "Assign" \in StmtKindsOn THEN {Assign(t, e) : t \in Targets, e \in ExprsUpTo(n)} ELSE {})
\cup (IF "AugAssign" \in StmtKindsOn THEN {AugAssign("+", t, e) : t \in Targets, e \in ExprsUpTo(n)} ELSE {})

Inner == SimpleStmts(InnerExprSize)
Conds == ExprsUpTo(1)

CompoundStmts ==
  IF Sim THEN {} ELSE
     (IF "If" \in StmtKindsOn THEN {If(t, <<a>>, <<>>) : t \in Conds, a \in Inner} ELSE {})
\cup (IF "IfElse" \in StmtKindsOn THEN {If(t, <<a>>, <<b>>) : t \in Conds, a \in Inner, b \in Inner} ELSE {})
\cup (IF "Elif" \in StmtKindsOn
      THEN {If(t, <<a>>, <<If(u, <<b>>, <<>>)>>) : t \in Conds, u \in Conds, a \in Inner, b \in Inner}
      ELSE {})
\cup (IF "ElifElse" \in StmtKindsOn
      THEN {If(t, <<a>>, <<If(u, <<b>>, <<c>>)>>) : t \in Conds, u \in Conds, a \in Inner, b \in Inner, c \in Inner}
      ELSE {})
\cup (IF "While" \in StmtKindsOn THEN {While(t, <<a>>) : t \in Conds, a \in Inner} ELSE {})
\cup (IF "While2" \in StmtKindsOn THEN {While(t, <<a, b>>) : t \in Conds, a \in Inner, b \in Inner} ELSE {})
\cup (IF "Def" \in StmtKindsOn THEN {Def("h", <<a>>) : a \in Inner} ELSE {})
\cup (IF "IfIf" \in StmtKindsOn
      THEN {If(t, <<If(u, <<a>>, <<>>)>>, <<b>>) : t \in Conds, u \in Conds, a \in Inner, b \in Inner}
      ELSE {})

StmtPool == IF Sim THEN {} ELSE SimpleStmts(MaxExprSize) \cup CompoundStmts

----------------------------------------------------------------------------
\* Abstraction of a focus into a pattern
FocusTree(m, f) == IF f.n = 0 THEN At(m, f.bp)
                   ELSE Block(SubSeq(At(m, f.bp).c, f.i, f.i + f.n - 1))

\* a slice is an expression node for the interpreter (and for rope's wildcards), but it cannot be
\* written as a pattern of its own nor be replaced by a wildcard in pattern text
PatExprPaths(t) == {p \in ExprPaths(t) : At(t, p).k # "Slice"}
Foci(m) ==
     (IF "expr" \in FocusKinds THEN {[bp |-> p, i |-> 0, n |-> 0] : p \in PatExprPaths(m)} ELSE {})
\cup {f \in {[bp |-> p, i |-> i, n |-> n] : p \in BlockPaths(m), i \in 1..MaxStmts, n \in 1..2} :
        /\ "stmts" \in FocusKinds
        /\ f.i + f.n - 1 <= Len(At(m, f.bp).c)
        \* a single expression statement is the same pattern text as its expression
        /\ ~(f.n = 1 /\ At(m, f.bp).c[f.i].k = "Expr")}

Disjoint(p, q) == ~IsPrefix(p, q) /\ ~IsPrefix(q, p)

\* choices of wildcards: a set of records [q, w] (path in the focus tree, name)
WildChoices(F) ==
  LET EP == PatExprPaths(F)
      one(q) == {<<[q |-> q, w |-> "x"]>>, <<[q |-> q, w |-> "?x"]>>}
                \cup (IF At(F, q).k = "Name" THEN {<<[q |-> q, w |-> At(F, q).v]>>} ELSE {})
      two(q, r) ==   \* q before r in source order
           {<<[q |-> q, w |-> "x"], [q |-> r, w |-> "?y"]>>}
           \cup (IF At(F, q) = At(F, r) THEN {<<[q |-> q, w |-> "x"], [q |-> r, w |-> "x"]>>} ELSE {})
           \cup (IF At(F, q).k = "Name" /\ At(F, q) # At(F, r)
                 THEN {<<[q |-> q, w |-> At(F, q).v], [q |-> r, w |-> "y"]>>} ELSE {})
  IN (IF MaxWild >= 0 THEN {<<>>} ELSE {})
     \cup (IF MaxWild >= 1 THEN UNION {one(q) : q \in EP} ELSE {})
     \cup (IF MaxWild >= 2
           THEN UNION {two(q, r) : <<q, r>> \in {x \in EP \X EP : Disjoint(x[1], x[2]) /\ LexLE(x[1], x[2])}}
           ELSE {})

RECURSIVE ApplyWild(_, _)
ApplyWild(F, ch) == IF ch = <<>> THEN F
                    ELSE ApplyWild(ReplaceAt(F, Head(ch).q, Wild(Head(ch).w)), Tail(ch))

ExactOf(ch) == {ch[i].w : i \in DOMAIN ch} \cap Names

\* absolute path in the module of path q of the focus tree
AbsPath(f, q) == IF f.n = 0 THEN f.bp \o q
                 ELSE f.bp \o <<f.i + Head(q) - 1>> \o Tail(q)

Brackets(t) == t.k \in {"Call", "List"} /\ Len(t.c) > 2

DecoChoices(m, f, ch) ==
  LET fp == IF f.n = 0 THEN {f.bp} ELSE {}
      bp == IF ch = <<>> THEN {} ELSE {AbsPath(f, ch[1].q)}
      paren(p) == [rp |-> <<p>>, br |-> {}, tc |-> {}, sp |-> FALSE]
      parbr(p) == [rp |-> <<p>>, br |-> {p}, tc |-> {}, sp |-> FALSE]
      breakable(p) == At(m, p).k \in {"BinOp", "Compare", "BoolOp", "IfExp", "Tuple"}
  IN (IF "none" \in DecoKinds THEN {NoDeco} ELSE {})
     \cup (IF "focus" \in DecoKinds THEN {paren(p) : p \in fp} ELSE {})
     \cup (IF "focusbr" \in DecoKinds THEN {parbr(p) : p \in {x \in fp : breakable(x)}} ELSE {})
     \cup (IF "bound" \in DecoKinds THEN {paren(p) : p \in bp} ELSE {})
     \cup (IF "boundbr" \in DecoKinds THEN {parbr(p) : p \in {x \in bp : breakable(x)}} ELSE {})

\* Candidate positions and instances of a pattern pt in a module md
CandidatesOf(md, pt) ==
  IF pt.k = "Block"
  THEN {f \in {[bp |-> p, i |-> i, n |-> Len(pt.c)] : p \in BlockPaths(md), i \in 1..MaxStmts} :
           f.i + f.n - 1 <= Len(At(md, f.bp).c)}
  ELSE {[bp |-> p, i |-> 0, n |-> 0] : p \in ExprPaths(md)}

\* every expression node (every run of statements) that is an instance
MatchSet(md, pt, ex) == {m \in CandidatesOf(md, pt) : Matches(pt, FocusTree(md, m), ex)}
----------------------------------------------------------------------------
Init ==
  /\ mod = Block(<<>>)
  /\ stage = "build"
  /\ pat = Block(<<>>)
  /\ exact = {}
  /\ focus = [bp |-> <<>>, i |-> 0, n |-> 0]
  /\ wpaths = <<>>
  /\ deco = NoDeco
  /\ matches = {}

AddStmt ==
  /\ stage = "build"
  /\ Len(mod.c) < MaxStmts
  /\ \E s \in StmtPool :
        /\ Size(mod) + Size(s) <= MaxModSize
        /\ mod' = Block(Append(mod.c, s))
  /\ UNCHANGED <<stage, pat, exact, focus, wpaths, deco, matches>>

Abstract ==
  /\ stage = "build"
  /\ Len(mod.c) > 0
  /\ \E f \in Foci(mod) :
       \E ch \in WildChoices(FocusTree(mod, f)) :
         \E d \in DecoChoices(mod, f, ch) :
            /\ focus' = f
            /\ wpaths' = ch
            /\ pat' = ApplyWild(FocusTree(mod, f), ch)
            /\ exact' = ExactOf(ch)
            /\ deco' = d
            /\ matches' = MatchSet(mod, pat', exact')
  /\ stage' = "done"
  /\ UNCHANGED mod

Next == AddStmt \/ Abstract
Spec == Init /\ [][Next]_vars

\* The same two steps with every choice drawn at random (TLC -simulate), for
\* bounds whose state graph is too large to enumerate.
\* one random statement of every enabled shape (without building StmtPool)
SimStmtChoices(cur) ==   \* cur: the module so far (keeps TLC from evaluating this once and for all)
  LET e  == RandomElement(ExprsUpTo(MaxExprSize))
      t  == RandomElement(Targets)
      c1 == RandomElement(Conds)
      c2 == RandomElement(Conds)
      i1 == RandomElement(Inner)
      i2 == RandomElement(Inner)
      i3 == RandomElement(Inner)
      on(k, x) == IF k \in StmtKindsOn THEN {x} ELSE {}
  IN on("Expr", ExprS(e)) \cup on("Assign", Assign(t, e)) \cup on("AugAssign", AugAssign("+", t, e))
     \cup on("If", If(c1, <<i1>>, <<>>)) \cup on("IfElse", If(c1, <<i1>>, <<i2>>))
     \cup on("Elif", If(c1, <<i1>>, <<If(c2, <<i2>>, <<>>)>>))
     \cup on("ElifElse", If(c1, <<i1>>, <<If(c2, <<i2>>, <<i3>>)>>))
     \cup on("While", While(c1, <<i1>>)) \cup on("While2", While(c1, <<i1, i2>>))
     \cup on("Def", Def("h", <<i1>>)) \cup on("IfIf", If(c1, <<If(c2, <<i1>>, <<>>)>>, <<i2>>))
SimAddStmt ==
  /\ stage = "build"
  /\ Len(mod.c) < MaxStmts
  /\ \E s \in {RandomElement(SimStmtChoices(mod))} :
        /\ Size(mod) + Size(s) <= MaxModSize
        /\ mod' = Block(Append(mod.c, s))
  /\ UNCHANGED <<stage, pat, exact, focus, wpaths, deco, matches>>
SimAbstract ==
  /\ stage = "build"
  /\ Len(mod.c) > 0
  /\ \E f \in {RandomElement(Foci(mod))} :
       \E ch \in {RandomElement(WildChoices(FocusTree(mod, f)))} :
         \E d \in {RandomElement(DecoChoices(mod, f, ch) \cup {NoDeco})} :
            /\ focus' = f
            /\ wpaths' = ch
            /\ pat' = ApplyWild(FocusTree(mod, f), ch)
            /\ exact' = ExactOf(ch)
            /\ deco' = d
            /\ matches' = MatchSet(mod, pat', exact')
  /\ stage' = "done"
  /\ UNCHANGED mod
SimSpec == Init /\ [][SimAddStmt \/ SimAbstract]_vars

Done == stage = "done"

----------------------------------------------------------------------------
\* Instances of the pattern in the module
IsStmtPat == pat.k = "Block"
PatLen    == Len(pat.c)

MatchTree(m) == FocusTree(mod, m)

Candidates == CandidatesOf(mod, pat)
AllMatches == matches     \* = MatchSet(mod, pat, exact), see Abstract and MatchesDerived

SigmaOf(m) == Sigma(pat, MatchTree(m))

\* m lies in the region given by the node at path r
Inside(m, r) == IF m.n = 0 THEN IsPrefix(r, m.bp)
                ELSE IF IsPrefix(r, m.bp) THEN TRUE
                ELSE IF m.n = 1 THEN r = m.bp \o <<m.i>> ELSE FALSE

Regions == StmtPaths(mod) \cup ExprPaths(mod)
MatchesIn(r) == {m \in AllMatches : Inside(m, r)}

\* absolute paths of the wildcard occurrences of match m
OccAbs(m) == {AbsPath(m, q) : q \in WildPaths(pat)}
FirstAbs(m, w) == AbsPath(m, FirstOcc(pat, w))

\* The node(s) covered by match m, as a set of absolute node paths
Roots(m) == IF m.n = 0 THEN {m.bp} ELSE {m.bp \o <<j>> : j \in m.i..(m.i + m.n - 1)}
Covers(m, p) == \E r \in Roots(m) : IsPrefix(r, p)
InBinding(m, p) == \E q \in OccAbs(m) : IsPrefix(q, p)

\* two instances overlap in a way that no replacement order can honour both:
\* one lies in the other's skeleton (not inside what a wildcard stands for)
Clash(m1, m2) ==
  /\ m1 # m2
  /\ \E r \in Roots(m2) : Covers(m1, r)
  /\ \E r \in Roots(m2) : ~InBinding(m1, r)
Ambiguous == \E m1 \in AllMatches, m2 \in AllMatches : Clash(m1, m2)

----------------------------------------------------------------------------
\* Replacing every instance by a goal, outermost first; instances inside what a
\* wildcard stands for are replaced inside the copy that the goal receives.
ExprMatchAt(p) == [bp |-> p, i |-> 0, n |-> 0] \in AllMatches

RECURSIVE RwE(_, _), Descend(_, _)
RwE(p, goal) ==
  IF At(mod, p).k \in ExprKinds /\ ExprMatchAt(p)
  THEN LET m == [bp |-> p, i |-> 0, n |-> 0]
           s == [w \in WildNames(pat) |->
                   IF FirstAbs(m, w) = p THEN Descend(p, goal) ELSE RwE(FirstAbs(m, w), goal)]
       IN Subst(goal, s)
  ELSE Descend(p, goal)
Descend(p, goal) ==
  LET n == At(mod, p)
  IN [n EXCEPT !.c = [i \in DOMAIN n.c |-> RwE(p \o <<i>>, goal)]]

WinMatchAt(bp, i) == [bp |-> bp, i |-> i, n |-> PatLen] \in AllMatches

RECURSIVE RwB(_, _), RwS(_, _)
RwB(bp, goal) ==
  LET b == At(mod, bp)
      RECURSIVE Scan(_)
      Scan(i) == IF i > Len(b.c) THEN <<>>
                 ELSE IF WinMatchAt(bp, i)
                      THEN Subst(goal, SigmaOf([bp |-> bp, i |-> i, n |-> PatLen])).c \o Scan(i + PatLen)
                      ELSE <<RwS(bp \o <<i>>, goal)>> \o Scan(i + 1)
  IN Block(Scan(1))
RwS(p, goal) ==
  LET n == At(mod, p)
  IN [n EXCEPT !.c = [j \in DOMAIN n.c |-> IF n.c[j].k = "Block" THEN RwB(p \o <<j>>, goal) ELSE n.c[j]]]

Rewrite(goal) == IF IsStmtPat THEN RwB(<<>>, goal) ELSE RwE(<<>>, goal)

----------------------------------------------------------------------------
\* The mechanism rope uses for statement patterns, modelled step by step so that
\* a deviation from Rewrite can be attributed (and TLC can exhibit it):
\*  - instances are collected node by node in pre-order, at each node the runs
\*    of all its statement lists first, then the children;
\*  - they are applied in that order, skipping an instance that starts before
\*    the end of the last applied one;
\*  - an instance is replaced as text: when it is the `elif` arm of an if
\*    statement, the goal's text takes the place of "elif ...", which detaches
\*    the arm from the chain.
Owner(m) == IF m.bp = <<>> THEN <<>> ELSE SubSeq(m.bp, 1, Len(m.bp) - 1)
Field(m) == IF m.bp = <<>> THEN 0 ELSE m.bp[Len(m.bp)]
RopeBefore(m1, m2) ==
  IF Owner(m1) # Owner(m2) THEN LexLE(Owner(m1), Owner(m2))
  ELSE IF Field(m1) # Field(m2) THEN Field(m1) < Field(m2)
  ELSE m1.i <= m2.i
RECURSIVE SortRope(_)
SortRope(S) == IF S = {} THEN <<>>
               ELSE LET m == CHOOSE x \in S : \A y \in S : RopeBefore(x, y)
                    IN <<m>> \o SortRope(S \ {m})
StartsAfter(m, l) ==
  LET a == m.bp \o <<m.i>>
      b == l.bp \o <<l.i + l.n - 1>>
  IN LexLE(b, a) /\ ~IsPrefix(b, a)
RECURSIVE RopeAcc(_, _)
RopeAcc(seq, last) ==
  IF seq = <<>> THEN {}
  ELSE LET m == Head(seq)
       IN IF last.n = 0 THEN {m} \cup RopeAcc(Tail(seq), m)
          ELSE IF StartsAfter(m, last) THEN {m} \cup RopeAcc(Tail(seq), m)
          ELSE RopeAcc(Tail(seq), last)
RopeAccepted == RopeAcc(SortRope(AllMatches), [bp |-> <<>>, i |-> 0, n |-> 0])

\* the runs Rewrite replaces (outermost block first, leftmost first)
RECURSIVE PolicyB(_), PolicyS(_)
PolicyB(bp) ==
  LET b == At(mod, bp)
      RECURSIVE Scan(_)
      Scan(i) == IF i > Len(b.c) THEN {}
                 ELSE IF WinMatchAt(bp, i) THEN {[bp |-> bp, i |-> i, n |-> PatLen]} \cup Scan(i + PatLen)
                 ELSE PolicyS(bp \o <<i>>) \cup Scan(i + 1)
  IN Scan(1)
PolicyS(p) == UNION {IF At(mod, p).c[j].k = "Block" THEN PolicyB(p \o <<j>>) ELSE {} : j \in DOMAIN At(mod, p).c}
PolicyReplaced == IF IsStmtPat THEN PolicyB(<<>>) ELSE {}

IsElifArm(m) ==
  /\ m.n = 1 /\ m.i = 1 /\ m.bp # <<>>
  /\ m.bp[Len(m.bp)] = 3
  /\ At(mod, Owner(m)).k = "If"
  /\ Len(At(mod, m.bp).c) = 1
  /\ At(mod, m.bp).c[1].k = "If"
ElifHit == \E m \in RopeAccepted : IsElifArm(m)
OrderSkip == IsStmtPat /\ RopeAccepted # PolicyReplaced

RECURSIVE MechB(_, _, _), MechS(_, _, _)
MechB(bp, goal, A) ==
  LET b == At(mod, bp)
      RECURSIVE Scan(_)
      Scan(i) == IF i > Len(b.c) THEN <<>>
                 ELSE IF [bp |-> bp, i |-> i, n |-> PatLen] \in A
                      THEN Subst(goal, SigmaOf([bp |-> bp, i |-> i, n |-> PatLen])).c \o Scan(i + PatLen)
                      ELSE MechS(bp \o <<i>>, goal, A) \o Scan(i + 1)
  IN Scan(1)
MechS(p, goal, A) ==
  LET n == At(mod, p)
      arm == [bp |-> p \o <<3>>, i |-> 1, n |-> 1]
  IN IF n.k = "If" /\ arm \in A /\ IsElifArm(arm)
     THEN <<[n EXCEPT !.c = <<n.c[1], Block(MechB(p \o <<2>>, goal, A)), Block(<<>>)>>]>>
          \o Subst(goal, SigmaOf(arm)).c
     ELSE <<[n EXCEPT !.c = [j \in DOMAIN n.c |->
                IF n.c[j].k = "Block" THEN Block(MechB(p \o <<j>>, goal, A)) ELSE n.c[j]]]>>
MechRewrite(goal) == IF IsStmtPat THEN Block(MechB(<<>>, goal, RopeAccepted)) ELSE Rewrite(goal)

\* Overlapping statement instances (sliding runs such as four `x.append(..)` lines against a two-line
\* pattern): which of them is replaced is not prescribed, but every instance must be replaced unless
\* it overlaps one that was - any maximal set of pairwise disjoint instances is acceptable.
Overlap(m1, m2) ==
  /\ m1 # m2
  /\ \/ \E r \in Roots(m2) : Covers(m1, r)
     \/ \E r \in Roots(m1) : Covers(m2, r)
MaximalSelections ==
  {S \in SUBSET AllMatches :
      /\ \A x \in S, y \in S : ~Overlap(x, y)
      /\ \A m \in AllMatches \ S : \E x \in S : Overlap(m, x)}
RECURSIVE SelB(_, _, _), SelS(_, _, _)
SelB(bp, goal, S) ==
  LET b == At(mod, bp)
      RECURSIVE Scan(_)
      Scan(i) == IF i > Len(b.c) THEN <<>>
                 ELSE IF [bp |-> bp, i |-> i, n |-> PatLen] \in S
                      THEN Subst(goal, SigmaOf([bp |-> bp, i |-> i, n |-> PatLen])).c \o Scan(i + PatLen)
                      ELSE <<SelS(bp \o <<i>>, goal, S)>> \o Scan(i + 1)
  IN Scan(1)
SelS(p, goal, S) ==
  LET n == At(mod, p)
  IN [n EXCEPT !.c = [j \in DOMAIN n.c |-> IF n.c[j].k = "Block" THEN Block(SelB(p \o <<j>>, goal, S)) ELSE n.c[j]]]
Alternatives(goal) ==
  IF IsStmtPat /\ Ambiguous THEN {Block(SelB(<<>>, goal, S)) : S \in MaximalSelections} ELSE {}

\* Histories.  What a restructuring computes depends on the module's current text only: the
\* expected result is Rewrite(goal) whatever the same Restructure object computed before.  Earlier
\* gives module texts the object may have been asked about first (the current module before an
\* edit: a statement was removed from / added at the front, so every offset moved); the binding
\* computes on an earlier text, rewrites the file to the current module, and computes again.
Earlier ==
  {Block(<<ExprS(Name("z"))>> \o mod.c)} \cup (IF Len(mod.c) > 1 THEN {Block(Tail(mod.c))} ELSE {})

----------------------------------------------------------------------------
\* Goals built from the pattern's wildcards
WSeq == LET ws == WildNames(pat)
        IN IF ws = {} THEN <<>>
           ELSE LET w1 == CHOOSE w \in ws : \A v \in ws : LexLE(FirstOcc(pat, w), FirstOcc(pat, v))
                IN IF Cardinality(ws) = 1 THEN <<w1>> ELSE <<w1, CHOOSE v \in ws : v # w1>>

G(id, g) == [id |-> id, g |-> g]
ExprGoals ==
  LET ws == WSeq
      W1 == Wild(ws[1])
      W2 == Wild(ws[2])
  IN {G("same", pat)}
     \cup (IF Len(ws) = 0 THEN {G("name", Name("z")), G("add", BinOp("+", pat, Num("2")))} ELSE {})
     \cup (IF Len(ws) >= 1
           THEN {G("bare", W1), G("mul", BinOp("*", W1, Num("2"))), G("pow", BinOp("**", W1, Num("2"))),
                 G("neg", UnOp("-", W1)), G("not", UnOp("not", W1)), G("attr", Attr(W1, "q")),
                 G("call", Call(Name("g"), <<W1>>)), G("cmp", Cmp("<", W1, Num("2"))),
                 G("twice", BinOp("+", W1, W1))}
           ELSE {})
     \cup (IF Len(ws) = 2
           THEN {G("swap", BinOp("-", W2, W1)), G("call2", Call(Name("g"), <<W2, W1>>)),
                 G("ifexp", IfExp(W1, W2, Num("0")))}
           ELSE {})

StmtGoals ==
  LET ws == WSeq
      args == [i \in 1..Len(ws) |-> Wild(ws[i])]
      log == ExprS(Call(Name("g"), args))
  IN {G("same", pat), G("log", Block(<<log>>)), G("after", Block(pat.c \o <<log>>)),
      G("before", Block(<<log>> \o pat.c))}

Goals == IF IsStmtPat THEN StmtGoals ELSE ExprGoals

\* A goal is legal when every replacement it causes leaves a syntactically
\* valid tree: where the instance is an assignment target, the result must be
\* assignable.
RECURSIVE Assignable(_)
Assignable(t) == IF t.k \in {"Name", "Attribute", "Subscript"} THEN TRUE
                 ELSE IF t.k \in {"Tuple", "List"} THEN \A i \in DOMAIN t.c : Assignable(t.c[i])
                 ELSE FALSE
RECURSIVE TargetPos(_)
TargetPos(p) ==
  IF p = <<>> THEN FALSE
  ELSE LET par == SubSeq(p, 1, Len(p) - 1)
           pk  == At(mod, par).k
       IN IF pk \in {"Assign", "AugAssign"} THEN p[Len(p)] = 1
          ELSE IF pk \in {"Tuple", "List"} THEN TargetPos(par)
          ELSE FALSE
SliceInvolved ==
  \E m \in AllMatches : \/ (m.n = 0 /\ MatchTree(m).k = "Slice")
                        \/ \E w \in WildNames(pat) : SigmaOf(m)[w].k = "Slice"
Legal(goal) ==
  IF SliceInvolved /\ goal # pat THEN FALSE     \* a slice can only stand right inside a subscript
  ELSE IF IsStmtPat THEN TRUE
  ELSE \A m \in AllMatches :
         TargetPos(m.bp) =>
            LET r == Subst(goal, SigmaOf(m))
            IN /\ Assignable(r)
               /\ (At(mod, SubSeq(m.bp, 1, Len(m.bp) - 1)).k = "AugAssign" => r.k # "Tuple")

\* Does writing the goal out with the bound code pasted in need parentheses that
\* were not in the original text?  (i) a wildcard of the goal sits where the
\* bound tree binds looser than the place requires; (ii) the goal instance binds
\* looser than the place of the instance requires.
RECURSIVE ParenPlaces(_, _)
ParenPlaces(g, s) ==   \* set of <<kind of the operator above, kind of the bound tree>>
  UNION { (IF g.c[i].k = "Wild" /\ NeedsParen(g, i, s[g.c[i].v])
           THEN {<<g.k, s[g.c[i].v].k>>} ELSE {})
          \cup ParenPlaces(g.c[i], s) : i \in DOMAIN g.c }
\* the tree a wildcard of match m receives when the goal is instantiated
BoundResult(m, w, goal) ==
  IF m.n > 0 THEN SigmaOf(m)[w]
  ELSE IF FirstAbs(m, w) = m.bp THEN Descend(m.bp, goal) ELSE RwE(FirstAbs(m, w), goal)
BindingNeedsParen(goal) ==
  UNION {ParenPlaces(goal, [w \in WildNames(pat) |-> BoundResult(m, w, goal)]) : m \in AllMatches}
GoalNeedsParen(goal) ==
  IF IsStmtPat THEN {}
  ELSE UNION { LET p == m.bp IN
                 IF p = <<>> THEN {}
                 ELSE LET par == At(mod, SubSeq(p, 1, Len(p) - 1))
                          i   == p[Len(p)]
                          r   == RwE(p, goal)
                      IN IF NeedsParen(par, i, r) /\ ~NeedsParen(par, i, At(mod, p))
                         THEN {<<par.k, r.k>>} ELSE {}
               : m \in AllMatches }

\* some wildcard stands for code that is broken over two lines and held
\* together only by its own (redundant) parentheses
BrokenBinding == \E m \in AllMatches, w \in WildNames(pat) : FirstAbs(m, w) \in deco.br

----------------------------------------------------------------------------
\* Invariants (checked by TLC in every reachable state)
TypeOK ==
  /\ stage \in {"build", "done"}
  /\ mod.k = "Block"
  /\ Len(mod.c) <= MaxStmts

MatchesDerived == Done => matches = MatchSet(mod, pat, exact)

\* the focus the pattern was made from is an instance, bound to what was cut out
InstanceExists ==
  Done => /\ focus \in AllMatches
          /\ \A j \in DOMAIN wpaths :
                SigmaOf(focus)[wpaths[j].w] = At(FocusTree(mod, focus), wpaths[j].q)

\* substituting the bound code for the wildcards gives the matched code, and
\* the result is again an instance with the same binding
SubstMatches ==
  Done => \A m \in AllMatches :
            LET s == SigmaOf(m)
            IN /\ Subst(pat, s) = MatchTree(m)
               /\ Matches(pat, Subst(pat, s), exact)
               /\ Sigma(pat, Subst(pat, s)) = s

\* the step-by-step matcher finds exactly the instances, with the same binding
MatcherAgrees ==
  Done => \A m \in Candidates :
            LET r == MA(pat, MatchTree(m), NoBinding, exact)
            IN /\ r.ok = (m \in AllMatches)
               /\ (r.ok => r.m = SigmaOf(m))

\* replacing every instance by the pattern itself changes nothing
IdentityGoal == Done => Rewrite(pat) = mod

\* a rewritten module contains the goal instance wherever an outermost instance was
RewriteLocal ==
  Done => \A gl \in Goals :
            LET r == Rewrite(gl.g)
            IN \A m \in AllMatches :
                 (m.n = 0 /\ ~\E m2 \in AllMatches : m2 # m /\ Covers(m2, m.bp))
                    => Skel(gl.g, At(r, m.bp))
\* where the mechanism visits the instances in source order and touches no elif
\* arm, it computes Rewrite
MechAgrees ==
  Done => ((~OrderSkip /\ ~ElifHit) => \A gl \in Goals : MechRewrite(gl.g) = Rewrite(gl.g))

\* NOT an invariant: the mechanism is Rewrite.  TLC refutes it (statement
\* instances skipped by the visiting order; elif arms detached); used by the
\* check as a sensitivity run.
\* the outermost-leftmost choice of Rewrite is one of the acceptable selections
RewriteIsASelection ==
  Done => ((IsStmtPat /\ Ambiguous) => \A gl \in Goals : Rewrite(gl.g) \in Alternatives(gl.g))
MechIsRewrite == Done => \A gl \in Goals : MechRewrite(gl.g) = Rewrite(gl.g)
MechKeepsIdentity == Done => MechRewrite(pat) = mod
=============================================================================
