--------------------------- MODULE MC_RopeChange ---------------------------
EXTENDS RopeChange, Json

\* initial trees, written as the set of present paths (files get a content
\* id that identifies them: 10 + position)
MkTree(dirs, files) ==
  [p \in Paths |-> IF p \in dirs THEN Dir
                   ELSE IF p \in DOMAIN files THEN files[p] ELSE Absent]

T1 == MkTree({}, (<<"x">> :> 11) @@ (<<"y">> :> 12))
T2 == MkTree({<<"d">>}, (<<"x">> :> 11) @@ (<<"d","y">> :> 13))
T3 == MkTree({<<"d">>, <<"e">>}, (<<"x">> :> 11) @@ (<<"d","x">> :> 14) @@ (<<"d","y">> :> 13))

MCInitTrees == {T1, T2, T3}
MCInitTreesQuick == {T2}

\* Behaviour export: one JSON line per terminal state; everything a replay
\* needs (scenario) and everything the spec predicts (outcome).
TreePairs(t) == { <<p, t[p]>> : p \in {q \in Paths : t[q] # Absent} }
Behaviour ==
  [init |-> TreePairs(init), final |-> TreePairs(tree), snap |-> TreePairs(snap0),
   cs |-> cs, olds |-> olds, dir |-> dir, stopAt |-> stopAt, faultAt |-> faultAt,
   cause |-> cause, result |-> result, hist |-> hist, hist0 |-> hist0, ops |-> ops,
   done |-> done, needsRM |-> NeedsRemoveInverse, pre |-> pre]
Export == Ended => PrintT(<<"BEH", ToJson(Behaviour)>>)
=============================================================================
