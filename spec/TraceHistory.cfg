SPECIFICATION TraceSpec
INVARIANT Accepted
CHECK_DEADLOCK TRUE
