--------------------------- MODULE MC_PyModules ---------------------------
EXTENDS PyModules, Json

\* ---- worlds -------------------------------------------------------------
Fn(n, m) == Def(n, "fn", Append(m, n))
Cls(n, m) == Def(n, "cls", Append(m, n))
Var(n, m) == Def(n, "var", Append(m, n))

A == <<"a">>
B == <<"b">>
C == <<"c">>
D == <<"d">>
P == <<"p">>
PB == <<"p", "b">>
PC == <<"p", "c">>
PQ == <<"p", "q">>
PQC == <<"p", "q", "c">>

LibB(m) == <<Fn("f", m), Cls("g", m), Var("_h", m)>>
LibC(m) == <<Fn("f", m), Var("g", m)>>
\* a library module that lists what it exports: g is public by name but not in __all__
LibAll(m) == <<Fn("f", m), Cls("g", m), All(<<"f">>)>>

World(name, body, pkgs, opn, tidy) ==
  [name |-> name, body |-> body, pkgs |-> pkgs, open |-> opn, tidy |-> tidy]

\* flat: module a is written by TLC and tidied; b and c are libraries
WFlat == World("flat", (A :> <<>>) @@ (B :> LibB(B)) @@ (C :> LibC(C)), {}, <<A>>, {A})

\* flat, library b has __all__
WFlatAll == World("flatall", (A :> <<>>) @@ (B :> LibAll(B)) @@ (C :> LibC(C)), {}, <<A>>, {A})

\* a is tidied and d takes f from it (re-export through a)
WReexp ==
  World("reexp",
        (A :> <<>>) @@ (B :> LibB(B)) @@ (C :> LibC(C))
          @@ (D :> <<From(0, A, <<FromItem("f", "")>>), Use(<<"f">>, FALSE)>>),
        {}, <<A>>, {A})

\* a is tidied and d reads a.f through the module object
WReexpAttr ==
  World("reexpattr",
        (A :> <<>>) @@ (B :> LibB(B)) @@ (C :> LibC(C))
          @@ (D :> <<Import(<<ImpItem(A, "")>>), Use(<<"a", "f">>, FALSE)>>),
        {}, <<A>>, {A})

\* package p with libraries p.b, p.c; the tidied module p.a lives inside the package;
\* a top-level module b exists as well (absolute `import b` is not the sibling p.b)
WPkg ==
  World("pkg",
        (P :> <<>>) @@ (PB :> LibB(PB)) @@ (PC :> LibC(PC)) @@ (<<"p", "a">> :> <<>>) @@ (B :> LibC(B)),
        {P}, <<<<"p", "a">>>>, {<<"p", "a">>})

\* the package __init__ is tidied (it re-exports from its submodules); a is a consumer
WInit ==
  World("init",
        (P :> <<>>) @@ (PB :> LibB(PB)) @@ (PC :> LibC(PC))
          @@ (A :> <<From(0, P, <<FromItem("f", "")>>), Use(<<"f">>, FALSE)>>),
        {P}, <<P>>, {P})

\* package __init__ tidied, nobody outside uses it (but submodules import from it)
WInit0 ==
  World("init0",
        (P :> <<>>) @@ (PB :> LibB(PB)) @@ (PC :> <<From(1, <<"b">>, <<FromItem("g", "")>>), Use(<<"g">>, FALSE)>>),
        {P}, <<P>>, {P})

\* two package levels: p.q.c is three components deep (a "long" import)
WDeep ==
  World("deep",
        (P :> <<>>) @@ (PQ :> <<>>) @@ (PQC :> LibB(PQC)) @@ (PB :> LibC(PB)) @@ (A :> <<>>),
        {P, PQ}, <<A>>, {A})

\* tidied module deep inside: p.q.a with relative imports of level 1 and 2
WDeepIn ==
  World("deepin",
        (P :> <<>>) @@ (PQ :> <<>>) @@ (PQC :> LibB(PQC)) @@ (PB :> LibC(PB)) @@ (<<"p", "q", "a">> :> <<>>),
        {P, PQ}, <<<<"p", "q", "a">>>>, {<<"p", "q", "a">>})

MCWorlds == {WFlat}
WorldsFlat == {WFlat, WFlatAll}
WorldsReexp == {WReexp, WReexpAttr}
WorldsPkg == {WPkg}
WorldsInit == {WInit, WInit0}
WorldsDeep == {WDeep, WDeepIn}

\* alphabetical order of the names as rendered by bind/_pymodules.py
MCRank ==
  ("*" :> 0) @@ ("_h" :> 1) @@ ("x" :> 2) @@ ("y" :> 3) @@ ("f" :> 4) @@ ("k" :> 5)
  @@ ("a" :> 6) @@ ("b" :> 7) @@ ("c" :> 8) @@ ("d" :> 9) @@ ("e" :> 10)
  @@ ("g" :> 11) @@ ("h" :> 12) @@ ("p" :> 13) @@ ("q" :> 14) @@ ("r" :> 15)

AllPrefs == [split : BOOLEAN, top : BOOLEAN, alpha : BOOLEAN]
DefaultPrefs == {[split |-> FALSE, top |-> TRUE, alpha |-> FALSE]}

\* ---- behaviour export: one line per complete program ----------------------
BodyPairs(w) == { [m |-> m, body |-> w.body[m], pkg |-> m \in w.pkgs] : m \in Mods(w) }
ObsPairs == { [m |-> m, out |-> info.obs[m].out, err |-> info.obs[m].err] : m \in Mods(W) }
ExportPairs == { [m |-> m, names |-> info.exports[m]] : m \in Mods(W) }
BindingPairs == { [m |-> m, stmts |-> info.bindings[m]] : m \in Range(W.open) }
Program ==
  [world |-> W.name, mods |-> BodyPairs(W), obs |-> ObsPairs, exports |-> ExportPairs,
   bindings |-> BindingPairs, tags |-> info.tags, tidy |-> W.tidy, open |-> W.open]
Export == phase = "built" => PrintT(<<"BEH", ToJson(Program)>>)
=============================================================================
