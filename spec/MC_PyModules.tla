--------------------------- MODULE MC_PyModules ---------------------------
EXTENDS PyModules, Json

\* ---- worlds -------------------------------------------------------------
Fn(n, m) == Def(n, "fn", Append(m, n))
Cls(n, m) == Def(n, "cls", Append(m, n))
Var(n, m) == Def(n, "var", Append(m, n))

A == <<"a">>
B == <<"b">>
C == <<"c">>
D == <<"d">>
P == <<"p">>
PB == <<"p", "b">>
PC == <<"p", "c">>
PQ == <<"p", "q">>
PQC == <<"p", "q", "c">>

LibB(m) == <<Fn("f", m), Cls("g", m), Var("_h", m)>>
LibC(m) == <<Fn("f", m), Var("g", m)>>
\* a library module that lists what it exports: g is public by name but not in __all__
LibAll(m) == <<Fn("f", m), Cls("g", m), All(<<"f">>)>>

\* a world of C07: TLC writes the modules `opn`; the modules `tidy` are tidied
World(name, body, pkgs, opn, tidy) ==
  [name |-> name, body |-> body, pkgs |-> pkgs, open |-> opn, tidy |-> tidy,
   mid |-> [p \in DOMAIN body |-> p],
   msrc |-> {}, mdst |-> {}, reloc |-> {}, newnames |-> {}, topkg |-> {}]

\* a world of C05: definitions of `msrc` modules may move to `mdst` modules; `reloc` modules
\* may be moved into any package or renamed to one of `newnames`; `topkg` modules may become
\* packages
MWorld(name, body, pkgs, opn, msrc, mdst, reloc, newnames, topkg) ==
  [name |-> name, body |-> body, pkgs |-> pkgs, open |-> opn, tidy |-> {},
   mid |-> [p \in DOMAIN body |-> p],
   msrc |-> msrc, mdst |-> mdst, reloc |-> reloc, newnames |-> newnames, topkg |-> topkg]

\* flat: module a is written by TLC and tidied; b and c are libraries
WFlat == World("flat", (A :> <<>>) @@ (B :> LibB(B)) @@ (C :> LibC(C)), {}, <<A>>, {A})

\* flat, library b has __all__
WFlatAll == World("flatall", (A :> <<>>) @@ (B :> LibAll(B)) @@ (C :> LibC(C)), {}, <<A>>, {A})

\* a is tidied and d takes f from it (re-export through a)
WReexp ==
  World("reexp",
        (A :> <<>>) @@ (B :> LibB(B)) @@ (C :> LibC(C))
          @@ (D :> <<From(0, A, <<FromItem("f", "")>>), Use(<<"f">>, FALSE)>>),
        {}, <<A>>, {A})

\* a is tidied and d reads a.f through the module object
WReexpAttr ==
  World("reexpattr",
        (A :> <<>>) @@ (B :> LibB(B)) @@ (C :> LibC(C))
          @@ (D :> <<Import(<<ImpItem(A, "")>>), Use(<<"a", "f">>, FALSE)>>),
        {}, <<A>>, {A})

\* package p with libraries p.b, p.c; the tidied module p.a lives inside the package;
\* a top-level module b exists as well (absolute `import b` is not the sibling p.b)
WPkg ==
  World("pkg",
        (P :> <<>>) @@ (PB :> LibB(PB)) @@ (PC :> LibC(PC)) @@ (<<"p", "a">> :> <<>>) @@ (B :> LibC(B)),
        {P}, <<<<"p", "a">>>>, {<<"p", "a">>})

\* the package __init__ is tidied (it re-exports from its submodules); a is a consumer
WInit ==
  World("init",
        (P :> <<>>) @@ (PB :> LibB(PB)) @@ (PC :> LibC(PC))
          @@ (A :> <<From(0, P, <<FromItem("f", "")>>), Use(<<"f">>, FALSE)>>),
        {P}, <<P>>, {P})

\* package __init__ tidied, nobody outside uses it (but submodules import from it)
WInit0 ==
  World("init0",
        (P :> <<>>) @@ (PB :> LibB(PB)) @@ (PC :> <<From(1, <<"b">>, <<FromItem("g", "")>>), Use(<<"g">>, FALSE)>>),
        {P}, <<P>>, {P})

\* two package levels: p.q.c is three components deep (a "long" import)
WDeep ==
  World("deep",
        (P :> <<>>) @@ (PQ :> <<>>) @@ (PQC :> LibB(PQC)) @@ (PB :> LibC(PB)) @@ (A :> <<>>),
        {P, PQ}, <<A>>, {A})

\* tidied module deep inside: p.q.a with relative imports of level 1 and 2
WDeepIn ==
  World("deepin",
        (P :> <<>>) @@ (PQ :> <<>>) @@ (PQC :> LibB(PQC)) @@ (PB :> LibC(PB)) @@ (<<"p", "q", "a">> :> <<>>),
        {P, PQ}, <<<<"p", "q", "a">>>>, {<<"p", "q", "a">>})

\* flat, with two libraries whose rendered names extend one another textually (module_bb2 /
\* module_bb, see NAMES in bind/_pymodules.py): nothing but the spelling relates them
B2 == <<"b2">>
WFlatSib == World("flatsib", (A :> <<>>) @@ (B :> LibB(B)) @@ (B2 :> LibC(B2)), {}, <<A>>, {A})
\* the same inside a package (p.b2 / p.b), tidied module p.a
WPkgSib ==
  World("pkgsib", (P :> <<>>) @@ (PB :> LibB(PB)) @@ (<<"p", "b2">> :> LibC(<<"p", "b2">>)) @@ (<<"p", "a">> :> <<>>),
        {P}, <<<<"p", "a">>>>, {<<"p", "a">>})
WorldsSib == {WFlatSib}
WorldsPkgSib == {WPkgSib}

MCWorlds == {WFlat}

\* ---- worlds of C05 -------------------------------------------------------
S == <<"s">>
T == <<"t">>
FnR(n, m, refs) == DefR(n, "fn", Append(m, n), refs)
ClsR(n, m, refs) == DefR(n, "cls", Append(m, n), refs)

\* source module s: f needs an imported name and a dotted module reference, h needs k
\* (defined next to it), k and v need nothing; a is the client TLC writes
SrcBody ==
  <<Import(<<ImpItem(C, "")>>), From(0, B, <<FromItem("g", "")>>),
    Fn("k", S), FnR("f", S, <<<<"g">>, <<"c", "f">>>>), ClsR("h", S, <<<<"k">>>>), Var("v", S)>>

WMove ==
  MWorld("move",
         (A :> <<>>) @@ (S :> SrcBody) @@ (T :> <<>>) @@ (B :> LibB(B)) @@ (C :> LibC(C)),
         {}, <<A>>, {S}, {T}, {}, {}, {})

\* the source uses what moves; the destination already has an import and a definition
WMoveBusy ==
  MWorld("movebusy",
         (A :> <<>>) @@ (S :> SrcBody \o <<Use(<<"f">>, FALSE), Use(<<"h">>, TRUE)>>)
           @@ (T :> <<Import(<<ImpItem(C, "")>>), Fn("w", T)>>) @@ (B :> LibB(B)) @@ (C :> LibC(C)),
         {}, <<A>>, {S}, {T}, {}, {}, {})

\* source and destination inside a package; the client outside or inside
WMovePkg ==
  MWorld("movepkg",
         (A :> <<>>) @@ (P :> <<>>) @@ (<<"p", "s">> :> <<From(1, <<"b">>, <<FromItem("g", "")>>),
                                                          FnR("f", <<"p", "s">>, <<<<"g">>>>),
                                                          Fn("k", <<"p", "s">>)>>)
           @@ (<<"p", "t">> :> <<>>) @@ (PB :> LibB(PB)) @@ (T :> <<>>),
         {P}, <<A>>, {<<"p", "s">>}, {<<"p", "t">>, T}, {}, {}, {})

WMovePkgIn ==
  MWorld("movepkgin",
         (<<"p", "a">> :> <<>>) @@ (P :> <<>>) @@ (<<"p", "s">> :> <<From(1, <<"b">>, <<FromItem("g", "")>>),
                                                          FnR("f", <<"p", "s">>, <<<<"g">>>>),
                                                          Fn("k", <<"p", "s">>)>>)
           @@ (<<"p", "t">> :> <<>>) @@ (PB :> LibB(PB)) @@ (T :> <<>>),
         {P}, <<<<"p", "a">>>>, {<<"p", "s">>}, {<<"p", "t">>, T}, {}, {}, {})

\* as movepkgin, and the destination p.t (which has a top-level namesake t) defines h: a client may
\* already have a relative  from .t import h  when a definition moves to the top-level t
WMovePkgRel ==
  MWorld("movepkgrel",
         (<<"p", "a">> :> <<>>) @@ (P :> <<>>) @@ (<<"p", "s">> :> <<From(1, <<"b">>, <<FromItem("g", "")>>),
                                                          FnR("f", <<"p", "s">>, <<<<"g">>>>),
                                                          Fn("k", <<"p", "s">>)>>)
           @@ (<<"p", "t">> :> <<Fn("h", <<"p", "t">>)>>) @@ (PB :> LibB(PB)) @@ (T :> <<>>),
         {P}, <<<<"p", "a">>>>, {<<"p", "s">>}, {<<"p", "t">>, T}, {}, {}, {})
WorldsMovePkgRel == {WMovePkgRel}

\* the destination already refers to the source: after the move it has the name itself
WMoveBack ==
  MWorld("moveback",
         (A :> <<>>) @@ (S :> SrcBody) @@ (T :> <<Import(<<ImpItem(S, "")>>), Use(<<"s", "v">>, FALSE)>>)
           @@ (B :> LibB(B)) @@ (C :> LibC(C)),
         {}, <<A>>, {S}, {T}, {}, {}, {})

\* Sibling modules whose rendered names extend one another textually (b / b2, t / t2; see NAMES in
\* bind/_pymodules.py): a request that must add  import p.t  meets an existing  import p.t2 , and the
\* moved code's own imports are  import p.b2  followed by  import p.b .
PT == <<"p", "t">>
PT2 == <<"p", "t2">>
PB2 == <<"p", "b2">>
WMoveSib ==
  MWorld("movesib",
         (A :> <<>>) @@ (P :> <<>>) @@ (PB :> LibB(PB)) @@ (PB2 :> LibC(PB2)) @@ (PT :> <<>>) @@ (PT2 :> LibC(PT2))
           @@ (T :> <<>>)
           @@ (S :> <<Import(<<ImpItem(PB2, "")>>), Import(<<ImpItem(PB, "")>>),
                      FnR("f", S, <<<<"p", "b", "g">>>>), Fn("k", S)>>),
         {P}, <<A>>, {S}, {PT, T}, {}, {}, {})
WorldsMoveSib == {WMoveSib}

WorldsMove == {WMove, WMoveBusy, WMoveBack}
WorldsMovePkg == {WMovePkg, WMovePkgIn}

\* modules to relocate: p.b (library), p.c (imports its sibling relatively), d (top level),
\* package q is a possible destination; a is the client TLC writes
Q == <<"q">>
RelocBodies(client) ==
  (client :> <<>>) @@ (P :> <<>>) @@ (Q :> <<>>) @@ (PB :> LibB(PB))
    @@ (PC :> <<From(1, <<"b">>, <<FromItem("g", "")>>), From(1, <<>>, <<FromItem("b", "")>>),
               FnR("f", PC, <<<<"g">>, <<"b", "f">>>>), Use(<<"f">>, FALSE)>>)
    @@ (D :> <<Fn("f", D), Var("g", D)>>)

WReloc ==
  MWorld("reloc", RelocBodies(A), {P, Q}, <<A>>, {}, {}, {PB, PC, D, P}, {"e"}, {D, PC})
WRelocIn ==
  MWorld("relocin", RelocBodies(<<"p", "a">>), {P, Q}, <<<<"p", "a">>>>, {}, {}, {PB, PC, D, P, <<"p", "a">>},
         {"e"}, {<<"p", "a">>})
\* the package __init__ re-exports from its submodule
WRelocInit ==
  MWorld("relocinit",
         (A :> <<>>) @@ (P :> <<From(1, <<"b">>, <<FromItem("f", "")>>), From(1, <<>>, <<FromItem("c", "")>>)>>)
           @@ (Q :> <<>>) @@ (PB :> LibB(PB)) @@ (PC :> LibC(PC)),
         {P, Q}, <<A>>, {}, {}, {PB, PC, P}, {"e"}, {PC})

\* two package levels: p.q.c reaches its grand-parent package with a bare  from .. import b  (level 2,
\* no module name) and a named one; it can be moved, renamed, turned into a package, its package p.q can
\* be moved, and its definition f (which uses both imported names) can be moved out
WRelocDeep ==
  MWorld("relocdeep",
         (A :> <<>>) @@ (P :> <<>>) @@ (PQ :> <<>>) @@ (PB :> LibB(PB)) @@ (T :> <<>>)
           @@ (PQC :> <<From(2, <<>>, <<FromItem("b", "")>>), From(2, <<"b">>, <<FromItem("g", "")>>),
                       FnR("f", PQC, <<<<"b", "f">>, <<"g">>>>), Use(<<"f">>, FALSE)>>),
         {P, PQ}, <<A>>, {PQC}, {T}, {PQC, PQ}, {"e"}, {PQC})
WorldsRelocDeep == {WRelocDeep}

\* destination two packages deep (p.q.t): a client that reaches the moved definition through the module
\* object must be given an import of p.q.t, possibly next to a from-import of the top-level package p
PQT == <<"p", "q", "t">>
WMoveDeep ==
  MWorld("movedeep",
         (A :> <<>>) @@ (P :> <<>>) @@ (PQ :> <<>>) @@ (PQT :> <<>>) @@ (PB :> LibB(PB))
           @@ (S :> <<Fn("f", S), Fn("k", S)>>),
         {P, PQ}, <<A>>, {S}, {PQT}, {}, {}, {})
WorldsMoveDeep == {WMoveDeep}

\* a module that defines a name spelled like the module itself (p/k.py defines k): from p.k import k
PK == <<"p", "k">>
WRelocSame ==
  MWorld("relocsame",
         (A :> <<>>) @@ (P :> <<>>) @@ (Q :> <<>>) @@ (PK :> <<Fn("k", PK), Fn("f", PK)>>),
         {P, Q}, <<A>>, {}, {}, {PK}, {"e"}, {PK})
WorldsRelocSame == {WRelocSame}

WorldsReloc == {WReloc, WRelocIn}
WorldsRelocInit == {WRelocInit}
WorldsRelIn == {WMovePkgIn, WRelocIn}
WorldsAsMoved == {WMove, WMovePkg, WReloc}

WorldsFlat == {WFlat, WFlatAll}
WorldsReexp == {WReexp, WReexpAttr}
WorldsPkg == {WPkg}
WorldsInit == {WInit, WInit0}
WorldsDeep == {WDeep, WDeepIn}

\* three package levels: the tidied module p.q.r.a can use relative imports of level 1, 2 and 3;
\* p.b and p.q.b are namesakes one level apart (a wrong number of levels finds the other one)
PQR == <<"p", "q", "r">>
WDeep3 ==
  World("deep3",
        (P :> <<>>) @@ (PQ :> <<>>) @@ (PQR :> <<>>) @@ (PB :> LibB(PB)) @@ (<<"p", "q", "b">> :> LibC(<<"p", "q", "b">>))
          @@ (<<"p", "q", "r", "a">> :> <<>>),
        {P, PQ, PQR}, <<<<"p", "q", "r", "a">>>>, {<<"p", "q", "r", "a">>})
WorldsDeep3 == {WDeep3}
WorldsPkgDeep == {WPkg, WDeep}
WorldsPkgDeepIn == {WPkg, WDeep, WDeepIn}

\* alphabetical order of the names as rendered by bind/_pymodules.py
MCRank ==
  ("*" :> 0) @@ ("_h" :> 1) @@ ("x" :> 2) @@ ("y" :> 3) @@ ("f" :> 4) @@ ("k" :> 5)
  @@ ("a" :> 6) @@ ("b" :> 7) @@ ("c" :> 8) @@ ("d" :> 9) @@ ("e" :> 10) @@ ("s" :> 11) @@ ("t" :> 12)
  @@ ("g" :> 13) @@ ("h" :> 14) @@ ("p" :> 15) @@ ("q" :> 16) @@ ("r" :> 17) @@ ("v" :> 18) @@ ("w" :> 19)
  @@ ("b2" :> 7) @@ ("t2" :> 12)

AllPrefs == [split : BOOLEAN, top : BOOLEAN, alpha : BOOLEAN]
DefaultPrefs == {[split |-> FALSE, top |-> TRUE, alpha |-> FALSE]}

\* ---- behaviour export: one line per complete program ----------------------
BodyPairs(w) == { [m |-> m, body |-> w.body[m], pkg |-> m \in w.pkgs] : m \in Mods(w) }
ObsPairs == { [m |-> q[1], out |-> q[2].out, err |-> q[2].err] : q \in info.obs }
ExportPairs == { [m |-> m, names |-> info.exports[m]] : m \in Mods(W) }
BindingPairs == { [m |-> m, stmts |-> info.bindings[m]] : m \in Range(W.open) }
\* where every module is after request a, and what the moved definition must say of itself
LayoutAfter(w, a) ==
  LET np(p) == IF a.name \in {"MoveModule", "RenameModule"} THEN NewPath(a.m, a.new, p) ELSE p
      pk(p) == p \in w.pkgs \/ (a.name = "ToPackage" /\ p = a.m)
  IN { [mid |-> w.mid[p], path |-> np(p), pkg |-> pk(p)] : p \in Mods(w) }
Probe(w, a) ==
  IF a.name = "MoveGlobal"
  THEN LET id == w.body[a.m][a.i].id
       IN <<[m |-> a.dest, n |-> a.n, id |-> id, subs |-> MovedIdent(w, a.m, id)[2]]>>
  ELSE <<>>
RequestPairs == { [act |-> a, layout |-> LayoutAfter(W, a), probe |-> Probe(W, a)] : a \in Requests(W) }
Program ==
  [world |-> W.name, mods |-> BodyPairs(W), obs |-> ObsPairs, exports |-> ExportPairs,
   bindings |-> BindingPairs, tags |-> info.tags, tidy |-> W.tidy, open |-> W.open,
   requests |-> RequestPairs]
Export == phase = "built" => PrintT(<<"BEH", ToJson(Program)>>)
=============================================================================
