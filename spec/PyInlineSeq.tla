---------------------------- MODULE PyInlineSeq ----------------------------
(***************************************************************************)
(* A history of several PERFORMED inline requests (C04): later requests    *)
(* inline into scopes that already hold the result of earlier ones.        *)
(*                                                                         *)
(* Program: a chain of NFuncs functions, F1 (the host, called and printed  *)
(* at module level) calls F2 calls F3 ...; every function has one local    *)
(* temporary, assigned before and read after its call of the next          *)
(* function (so it is live while everything below it runs):                *)
(*      def Fi(v):  <ti> = v + 10*i ;  wi = Fi+1(v) ;  return <ti> + wi     *)
(* The temporary's name names[i] is chosen from LocalNames, so temporaries *)
(* of different functions clash or not.  Exec is the printed value.        *)
(*                                                                         *)
(* A request Inline(k) inlines function k (k >= 2, still defined) into its *)
(* only caller - the nearest function above it that still exists - and     *)
(* removes it.  Each request is a refactoring of its own (new objects);    *)
(* up to MaxRequests are performed one after the other, in any order.      *)
(*                                                                         *)
(* Naming model.  scope[i] = the variables living in function i, each      *)
(* [id: function it came from, name].  Merging the callee's variables      *)
(* into the caller must keep different variables under different names     *)
(* (NoCapture) - then, and only then, the value is unchanged.  If a        *)
(* callee name clashes with a caller name, all callee variables get a      *)
(* prefix that no earlier request of the history used either.              *)
(* PrefixPerRequest = TRUE is the defect model "the prefix counter starts  *)
(* again with every request": it violates NoCapture (sensitivity).         *)
(***************************************************************************)
EXTENDS Naturals, Sequences, FiniteSets, TLC

CONSTANTS NFuncs, LocalNames, MaxRequests, PrefixPerRequest

Funcs == 1..NFuncs
Const(i) == 10 * i
\* value printed for argument v: every function adds v + its constant
RECURSIVE ValFrom(_, _)
ValFrom(i, v) == IF i > NFuncs THEN 0 ELSE (v + Const(i)) + ValFrom(i + 1, v)
Exec == <<ValFrom(1, 1), ValFrom(1, 5)>>

VARIABLES names,    \* [Funcs -> LocalNames]: name of each function's temporary
          alive,    \* functions still defined
          scope,    \* [Funcs -> set of [id, pre, base]]: variables per scope; pre = prefixes applied
          counter,  \* next unused prefix number
          hist      \* sequence of functions inlined so far (performed requests)
vars == <<names, alive, scope, counter, hist>>

Init ==
  /\ names \in [Funcs -> LocalNames]
  /\ alive = Funcs
  /\ scope = [i \in Funcs |-> {[id |-> i, pre |-> <<>>, base |-> names[i]]}]
  /\ counter = 0
  /\ hist = <<>>

\* the function whose body contains the (only) call of k
Caller(k) == CHOOSE j \in alive : j < k /\ \A m \in alive : (m < k) => m <= j
SameName(a, b) == a.pre = b.pre /\ a.base = b.base

Inline(k) ==
  /\ k \in alive /\ k >= 2
  /\ Len(hist) < MaxRequests
  /\ LET c == Caller(k)
         start == IF PrefixPerRequest THEN 0 ELSE counter
         clash == \E a \in scope[k], b \in scope[c] : SameName(a, b)
         moved == IF clash THEN { [a EXCEPT !.pre = <<start>> \o @] : a \in scope[k] } ELSE scope[k]
     IN /\ scope' = [scope EXCEPT ![c] = @ \cup moved, ![k] = {}]
        /\ counter' = IF clash THEN start + 1 ELSE start
  /\ alive' = alive \ {k}
  /\ hist' = Append(hist, k)
  /\ UNCHANGED names

Next == \E k \in Funcs : Inline(k)
Spec == Init /\ [][Next]_vars

\* different variables of one scope never share a name
NoCapture ==
  \A i \in Funcs : \A a, b \in scope[i] : (a.id # b.id) => ~SameName(a, b)
\* nothing is lost: every temporary lives in exactly one scope of a function that still exists
AllVariablesKept ==
  \A v \in Funcs : Cardinality({ i \in alive : \E a \in scope[i] : a.id = v }) = 1
=============================================================================
