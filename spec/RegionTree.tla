----------------------------- MODULE RegionTree -----------------------------
(***************************************************************************)
(* Property C08, corpus part: trace validation of annotated syntax trees.  *)
(*                                                                         *)
(* A trace is one source file as annotated by rope: the nodes that got a   *)
(* region, in the order of the tree's sorted_children lists, each with     *)
(*   k        node class                                                   *)
(*   s, e     the region                                                   *)
(*   p        index of the parent node in the trace (0: none)              *)
(*   prev     index of the previous sibling in the parent's                *)
(*            sorted_children (0: none)                                    *)
(*   ts       where the parent's sorted_children (the strings and nodes    *)
(*            before this one, laid end to end from the parent's start)    *)
(*            put this node                                                *)
(*   acc      where the node's own sorted_children end when laid end to    *)
(*            end from its start                                           *)
(*   cs, ce   the interpreter's own extent of the node (-1: it has none)   *)
(*   s0, e0, cs0, ce0   both extents with surrounding parentheses removed  *)
(*   ds       for a decorated def / class: where its first decorator       *)
(*            starts (-1 otherwise)                                        *)
(*   g        1 for a generator expression that is the only argument of a  *)
(*            call (the interpreter's extent then borrows the call's       *)
(*            parentheses), else 0                                         *)
(*   q        1 when the interpreter's extent exceeds the region by        *)
(*            nothing but the `;` that closes the statement's last line    *)
(*            (the interpreter counts it to compound statements)           *)
(* The spec consumes a batch of traces (one behaviour per trace, one step  *)
(* per node) and collects, per trace, every node that breaks a clause; a   *)
(* trace is accepted when that set is empty.                               *)
(***************************************************************************)
EXTENDS Integers, Sequences, FiniteSets, TLC, Json, IOUtils

\* one JSON object per line: [f |-> file id, len |-> text length, nodes |-> <<node...>>]
Traces == ndJsonDeserialize(IOEnv.TRACE_FILE)

VARIABLES t,     \* trace being consumed
          i,     \* next node of the trace
          bad    \* <<node index, clause>> pairs found so far
vars == <<t, i, bad>>

NK(n) == n[1]   NS(n) == n[2]   NE(n) == n[3]   NP(n) == n[4]   NPrev(n) == n[5]
NTs(n) == n[6]  NAcc(n) == n[7] NCs(n) == n[8]  NCe(n) == n[9]
NS0(n) == n[10] NE0(n) == n[11] NCs0(n) == n[12] NCe0(n) == n[13] NDs(n) == n[14] NG(n) == n[15] NQ(n) == n[16]

\* the clauses, for node n of trace tr
WellFormed(tr, n) == 0 <= NS(n) /\ NS(n) <= NE(n) /\ NE(n) <= tr.len
Nesting(tr, n) ==
  NP(n) = 0 \/ (NS(tr.nodes[NP(n)]) <= NS(n) /\ NE(n) <= NE(tr.nodes[NP(n)]))
SiblingOrder(tr, n) ==
  NPrev(n) = 0 \/ NE(tr.nodes[NPrev(n)]) <= NS(n)
\* the parent's sorted_children put the node where its region says, and the
\* node's own sorted_children fill its region exactly
Tiling(tr, n) == (NTs(n) = -1 \/ NTs(n) = NS(n)) /\ (NAcc(n) = -1 \/ NAcc(n) = NE(n))
\* the region is the interpreter's extent of the node
CpyExact(tr, n) ==
  IF NCs(n) = -1 THEN TRUE
  ELSE IF NS(n) = NCs(n) /\ NE(n) = NCe(n) THEN TRUE
  ELSE IF NDs(n) >= 0 THEN NS(n) = NDs(n) /\ NE(n) = NCe(n)
  ELSE IF NG(n) = 1 THEN NS0(n) = NCs0(n) /\ NE0(n) = NCe0(n)
  ELSE IF NQ(n) = 1 THEN NS(n) = NCs(n) \/ (NDs(n) >= 0 /\ NS(n) = NDs(n))
  ELSE FALSE
\* ... at least up to parentheses around it
CpyCore(tr, n) ==
  IF NCs(n) = -1 \/ NQ(n) = 1 THEN TRUE
  ELSE IF NDs(n) >= 0 THEN NE0(n) = NCe0(n)
  ELSE NS0(n) = NCs0(n) /\ NE0(n) = NCe0(n)

Fails(tr, n) ==
     (IF WellFormed(tr, n) THEN {} ELSE {"WellFormed"})
\cup (IF Nesting(tr, n) THEN {} ELSE {"Nesting"})
\cup (IF SiblingOrder(tr, n) THEN {} ELSE {"SiblingOrder"})
\cup (IF Tiling(tr, n) THEN {} ELSE {"Tiling"})
\cup (IF CpyExact(tr, n) THEN {} ELSE {"CpyExact"})
\cup (IF CpyCore(tr, n) THEN {} ELSE {"CpyCore"})

Init == t \in 1..Len(Traces) /\ i = 1 /\ bad = {}

Step ==
  /\ i <= Len(Traces[t].nodes)
  /\ bad' = bad \cup {<<i, c>> : c \in Fails(Traces[t], Traces[t].nodes[i])}
  /\ i' = i + 1
  /\ t' = t

Spec == Init /\ [][Step]_vars

Consumed == i = Len(Traces[t].nodes) + 1
Accepted == Consumed => bad = {}          \* what a faithful annotation satisfies

TypeOK == t \in 1..Len(Traces) /\ i \in 1..(Len(Traces[t].nodes) + 1)
\* indexes in a trace point backwards (the trace is a tree in document order)
TraceShape ==
  i > 1 => LET j == i - 1
               n == Traces[t].nodes[j]
           IN NP(n) < j /\ NPrev(n) < j /\ NP(n) >= 0 /\ NPrev(n) >= 0

\* verdict line per trace
Report == Consumed => PrintT(<<"RT", ToJson([f |-> Traces[t].f, n |-> Len(Traces[t].nodes), bad |-> bad])>>)
=============================================================================
