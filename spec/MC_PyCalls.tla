---------------------------- MODULE MC_PyCalls ----------------------------
EXTENDS PyCalls, Json

AllKinds == {"function", "method", "constructor", "classmethod", "staticmethod"}
InlineKinds == {"function", "method", "classmethod", "staticmethod"}
FunctionOnly == {"function"}
FunctionMethod == {"function", "method"}
AllUses == {"plain", "tight", "reassign"}
PlainOnly == {"plain"}
NoCx == {FALSE}
NoKo == {0}
NoHost == {FALSE}
NoDup == {FALSE}
NoPreview == {}
TwoMods == {1, 2}
ThreeMods == {1, 2, 3}
NoImp == {FALSE}
AllCtxs == {"stmt", "rhs", "nested", "suffix", "cont"}
AllFurniture == {"none", "from_then_lazy_import"}
AllPreviews == {"intro", "same"}
KoOnly == {1, 2}

\* Behaviour export (Task = "sig"): one JSON line per state reached by >= 1
\* changer: the scenario (kind, sig0, every call shape, the changer sequence)
\* and what the spec predicts (sig1, per site: original binding, expected
\* binding, parameters that must be passed explicitly, the spec's own
\* re-emitted call).
SigBehaviour ==
  [kinds |-> Kinds, furniture |-> Furniture, sig0 |-> sig0, sig1 |-> sig, chg |-> chg, pre |-> pre,
   sites |-> { [c0 |-> c0, c1 |-> calls[c0], b0 |-> Binding(sig0, c0),
                exp |-> exp[c0], expl |-> expl[c0]] : c0 \in DOMAIN calls }]
ExportSig == (Task = "sig" /\ chg # <<>>) => PrintT(<<"BEH", ToJson(SigBehaviour)>>)

\* Behaviour export (Task = "inline"): one line per completed request
InlineBehaviour ==
  [kinds |-> Kinds, ctxs |-> Ctxs, sig |-> sig, sites |-> sites, opt |-> opt, imported |-> imported,
   b0 |-> [i \in DOMAIN sites |-> ShowMap(ParMap(sig, sites[i].c, i))],
   bind |-> [i \in DOMAIN sites |-> SiteBinding(i)],
   shown |-> shown, shownD |-> shownD, shownS |-> shownS, shownL |-> shownL, targets |-> Targets, stale |-> stale, defgone |-> defgone,
   hostval |-> hostval, twins |-> Twins]
ExportInline == InlineDone => PrintT(<<"BEH", ToJson(InlineBehaviour)>>)
=============================================================================
