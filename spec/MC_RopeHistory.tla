--------------------------- MODULE MC_RopeHistory ---------------------------
EXTENDS RopeHistory, Json

MkTree(dirs, files) ==
  [p \in Paths |-> IF p \in dirs THEN Dir
                   ELSE IF p \in DOMAIN files THEN files[p] ELSE Absent]

H1 == MkTree({<<"d">>}, (<<"x">> :> 11) @@ (<<"d","x">> :> 12))
H2 == MkTree({<<"d">>, <<"e">>}, (<<"x">> :> 11) @@ (<<"d","x">> :> 12))
H3 == MkTree({}, (<<"x">> :> 11))

MCInitTreesH == {H1, H2}
\* C12: the same place on disk is a file in one change and a folder in another: the file name "n" is
\* rendered as "e", the folder name "e" too
H4 == [p \in Paths |-> Absent]
MCInitTreesH4 == {H4}
MCExclusivePairs == { << <<"n">>, <<"e">> >> }
MCNoPairs == {}
MCInitTreesH1 == {H1}

Behaviour == [init |-> TreePairs(init), limit |-> limit0, trail |-> trail, tainted |-> tainted,
              neverDefined |-> (NeverTree # Poison),
              never |-> IF NeverTree = Poison THEN {} ELSE TreePairs(NeverTree)]
Export == (Len(trail) = MaxSteps /\ pend.kind = "idle") => PrintT(<<"BEH", ToJson(Behaviour)>>)
=============================================================================
