SPECIFICATION TraceSpec
INVARIANT LiveReadable
INVARIANT SavedIsNew
CHECK_DEADLOCK TRUE
