----------------------------- MODULE MC_PyFlow -----------------------------
EXTENDS PyFlow, Json

CONSTANTS ExportMin      \* bodies shorter than this are not exported

MCKindsAll  == {"asg", "aug", "prt", "ret", "rtn", "if", "else", "for", "whl", "brk", "cnt"}
MCKindsInline == MCKindsAll \cup {"ifa", "wha", "cmp"}
MCKindsTry == {"try", "exc", "asg", "prt"}
MCReadsA == {{}, {"a"}}
MCKindsLoop == {"for", "whl", "else", "brk", "cnt", "prt"}
MCReadsAll == SUBSET Vars
MCReadsNone == {{}}
MCForAll == Vars \cup {""}
MCForPlain == {""}
MCKindsCore == {"asg", "aug", "prt", "if", "else", "for"}
MCInitNoneA == {{}, {"a"}}
MCInitAll   == {{}, {"a"}, {"a", "b"}}
MCInitOne   == {{"a"}}
MCInitBoth  == {{"a", "b"}}
MCInitTwo   == {{"a"}, {"a", "b"}}

MkVal(x, y) == [c \in Conds |-> IF c = "c1" THEN x ELSE y]
ValSeq == <<MkVal(FALSE, FALSE), MkVal(FALSE, TRUE), MkVal(TRUE, FALSE), MkVal(TRUE, TRUE)>>

RunRec(inp) ==
  LET o == Run(body, NoHelper, init, inp)
  IN [c1 |-> inp["c1"], c2 |-> inp["c2"], out |-> o.out, exc |-> o.exc, rv |-> o.rv]

RegionRec(i, j) ==
  LET cls == RegionClass(body, init, i, j)
  IN [i |-> i, j |-> j, cls |-> cls,
      params  |-> IF cls = "struct" THEN {} ELSE Params(body, i, j),
      results |-> IF cls = "struct" THEN {} ELSE Results(body, i, j),
      written |-> IF cls = "struct" THEN {} ELSE Written(body, i, j),
      shapes  |-> IF cls # "ok" THEN {}
                  ELSE {ShapeOf(body, i, j, v) @@ [da |-> v \in DAat(body, init, i)] : v \in Vars}]

ExprRecs ==
  UNION { { [i |-> i, sub |-> s.sub, v |-> s.v, via |-> via, sim |-> sim,
             reads |-> SubReads(body[i], s), cls |-> ExprClass(body, init, i, s, via, sim)] :
               s \in SubsOf(body[i]), via \in {"var", "call"}, sim \in BOOLEAN } :
          i \in {m \in 1..Len(body) : Simple(body[m])} }

\* Behaviour export: one JSON line per complete body: the scenario (lines,
\* bound-on-entry set), the predicted observable per input valuation, the
\* class / parameters / results of every line range, the class of every
\* expression request.
Behaviour ==
  [init |-> init, lines |-> body,
   runs |-> [k \in 1..4 |-> RunRec(ValSeq[k])],
   regions |-> IF StmtOn THEN UNION {{RegionRec(i, j) : j \in i..Len(body)} : i \in 1..Len(body)} ELSE {},
   exprs |-> IF ExprOn THEN ExprRecs ELSE {},
   \* which sibling kinds may be rewritten when statements of a host of kind hk are extracted with similar
   siblings |-> {[host |-> hk, sib |-> sk, rewritable |-> ReceiverIsName(sk, Receiver(hk))] :
                    hk \in ClassKinds, sk \in ClassKinds}]

Export == (phase = "build" /\ Complete(body) /\ Len(body) >= ExportMin)
             => PrintT(<<"BEH", ToJson(Behaviour)>>)
=============================================================================
