---------------------------- MODULE MC_PyInline ----------------------------
EXTENDS PyInline, Json

MCVars2 == {"v", "x"}
MCVars3 == {"v", "x", "y"}

\* one JSON line per completed request: the program, the request, the output the
\* spec predicts before (out0) and after (out1), and whether the substitution
\* needs parentheses (used only to describe a failure, never to excuse one)
Behaviour ==
  [prog |-> prog, req |-> req, out0 |-> out0, out1 |-> out1,
   out1D |-> ExecInlD(prog, req.remove, req.only, req.cur),
   def |-> DefLine(prog), reads |-> ReadsOfV(prog),
   replaced |-> Replaced(prog, req.only, req.cur),
   parens |-> NeedsParens(prog, req.only, req.cur)]
Export == phase = "done" => PrintT(<<"BEH", ToJson(Behaviour)>>)
=============================================================================
