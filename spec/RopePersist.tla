----------------------------- MODULE RopePersist -----------------------------
(***************************************************************************)
(* Saving the project data files (Project.close -> _DataFiles.write ->     *)
(* write hooks -> _DataFiles.write_data) with a crash at any instant, then *)
(* opening the project again (_DataFiles.read_data).                       *)
(*                                                                         *)
(* A name on disk holds one of                                             *)
(*   "missing" | "empty" | "old" | "new" | "partial"                       *)
(* ("partial": a proper prefix of the new bytes).  The reader              *)
(* (pickle.load in a loop) yields nothing for missing/empty, the value     *)
(* for old/new and RAISES for partial - this table is what the binding     *)
(* (bind/c18.py) measures on real files for every byte offset.             *)
(*                                                                         *)
(* The writer is the step sequence of write_data for each data file in     *)
(* hook order.  Writer = "inplace" is the pinned rope (open(name,"wb")     *)
(* truncates the live file); Writer = "atomic" is the repaired one (write  *)
(* name.tmp, close, os.replace onto name).                                 *)
(***************************************************************************)
EXTENDS Naturals, Sequences, FiniteSets, TLC

CONSTANTS DataFiles,   \* sequence of live names in hook order, e.g. <<"objectdb","history">>
          Writer,      \* "inplace" | "atomic"
          MaxChunks,   \* write() calls per file
          OldStates    \* possible contents before the save: subset of {"missing","old"}

Live == { DataFiles[k] : k \in 1..Len(DataFiles) }
Lv(f)  == <<f, "live">>     \* the name the reader reads
Tmp(f) == <<f, "tmp">>      \* the temporary name of the atomic writer
Names == { Lv(f) : f \in Live } \cup { Tmp(f) : f \in Live }

VARIABLES disk,     \* Names -> content class
          open,     \* set of names open for writing
          fi,       \* index in DataFiles of the file being written
          pc,       \* "open" | "write" | "close" | "replace" | "done"
          chunks,   \* chunks written to the current target
          phase,    \* "saving" | "crashed" | "saved" | "reopened"
          read,     \* Live -> "none" | "old" | "new" | "raises" (after Reopen)
          log       \* Seq of fs events (for trace validation and replay)

vars == <<disk, open, fi, pc, chunks, phase, read, log>>

Ev(op, n) == [op |-> op, name |-> n]

Target(f) == IF Writer = "atomic" THEN Tmp(f) ELSE Lv(f)

Init ==
  /\ disk \in { d \in [Names -> {"missing", "old"}] :
                  /\ \A f \in Live : d[Lv(f)] \in OldStates
                  /\ \A f \in Live : d[Tmp(f)] = "missing" }
  /\ open = {}
  /\ fi = 1
  /\ pc = "open"
  /\ chunks = 0
  /\ phase = "saving"
  /\ read = [f \in Live |-> "none"]
  /\ log = << >>

Cur == DataFiles[fi]

\* open(target, "wb"): creates or truncates
OpenTrunc ==
  /\ phase = "saving" /\ pc = "open"
  /\ disk' = [disk EXCEPT ![Target(Cur)] = "empty"]
  /\ open' = open \cup {Target(Cur)}
  /\ pc' = "write"
  /\ chunks' = 0
  /\ log' = Append(log, Ev("open", Target(Cur)))
  /\ UNCHANGED <<fi, phase, read>>

\* one write() reaching the disk; the last one completes the content
WriteChunk ==
  /\ phase = "saving" /\ pc = "write"
  /\ chunks' = chunks + 1
  /\ disk' = [disk EXCEPT ![Target(Cur)] = IF chunks + 1 = MaxChunks THEN "new" ELSE "partial"]
  /\ pc' = IF chunks + 1 = MaxChunks THEN "close" ELSE "write"
  /\ log' = Append(log, Ev("write", Target(Cur)))
  /\ UNCHANGED <<open, fi, phase, read>>

NextFile ==
  IF fi < Len(DataFiles)
    THEN fi' = fi + 1 /\ pc' = "open" /\ phase' = phase
    ELSE fi' = fi /\ pc' = "done" /\ phase' = "saved"

CloseFile ==
  /\ phase = "saving" /\ pc = "close"
  /\ open' = open \ {Target(Cur)}
  /\ log' = Append(log, Ev("close", Target(Cur)))
  /\ IF Writer = "atomic"
       THEN pc' = "replace" /\ UNCHANGED <<fi, phase>>
       ELSE NextFile
  /\ UNCHANGED <<disk, chunks, read>>

\* os.replace(tmp, live): atomic
Replace ==
  /\ phase = "saving" /\ pc = "replace"
  /\ disk' = [disk EXCEPT ![Lv(Cur)] = disk[Tmp(Cur)], ![Tmp(Cur)] = "missing"]
  /\ log' = Append(log, Ev("replace", Tmp(Cur)))
  /\ NextFile
  /\ UNCHANGED <<open, chunks, read>>

\* the process dies: whatever reached the disk stays
Crash ==
  /\ phase = "saving"
  /\ phase' = "crashed"
  /\ open' = {}
  /\ UNCHANGED <<disk, fi, pc, chunks, read, log>>

ReadResult(c) ==
  CASE c \in {"missing", "empty"} -> "none"
    [] c = "old" -> "old"
    [] c = "new" -> "new"
    [] c = "partial" -> "raises"

\* a new Project(...) on the directory reads every live data file
Reopen ==
  /\ phase \in {"crashed", "saved"}
  /\ read' = [f \in Live |-> ReadResult(disk[Lv(f)])]
  /\ phase' = "reopened"
  /\ UNCHANGED <<disk, open, fi, pc, chunks, log>>

Next == OpenTrunc \/ WriteChunk \/ CloseFile \/ Replace \/ Crash \/ Reopen

Spec == Init /\ [][Next]_vars

(***************************************************************************)
(* Properties (C18)                                                        *)
(***************************************************************************)
\* the project can be opened whatever the crash point
OpenNeverRaises == phase = "reopened" => \A f \in Live : read[f] # "raises"
\* what is read is a complete version; empty only if the save emptied it
CompleteVersion == phase = "reopened" => \A f \in Live : read[f] \in {"none", "old", "new"}
\* stronger (atomic writer): an existing old version is never lost
OldNeverLost == (phase = "reopened" /\ Writer = "atomic" /\ OldStates = {"old"}) =>
                  \A f \in Live : read[f] \in {"old", "new"}
\* a live name is never open for writing (the writer discipline trace validation checks)
LiveNeverOpen == Writer = "atomic" => open \cap { Lv(f) : f \in Live } = {}
\* a live name never holds a partial content
LiveNeverPartial == Writer = "atomic" => \A f \in Live : disk[Lv(f)] \notin {"partial", "empty"}
\* after a complete save everything is new
SavedIsNew == phase = "saved" => \A f \in Live : disk[Lv(f)] = "new"
=============================================================================
