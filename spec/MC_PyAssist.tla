----------------------------- MODULE MC_PyAssist -----------------------------
EXTENDS PyAssist, Json

MCNames == {"va", "vb", "w"}
MCHOrder == <<"va", "vb", "w">>
MCAllKinds == {"bind", "bindu", "use", "def", "class", "attr", "ret", "pass", "imp", "kw", "try", "fin", "if", "els", "tup"}
\* focus: unfinished try: blocks above keyword-argument calls (names bound by def only)
MCTryKinds == {"use", "def", "ret", "pass", "kw", "try", "fin"}
MCNoPrelude == {<<>>}
\* focus: a function with a parameter, then a try: block that is still open - at module level and
\* inside another function; TLC continues with every body, the handler and what follows
MCTryPreludes ==
  {<<Line(0, "def", "va", "w"), Line(1, "ret", "", "w"), Line(0, "try", "", "")>>,
   <<Line(0, "def", "va", "w"), Line(1, "pass", "", ""), Line(0, "def", "vb", ""), Line(1, "try", "", "")>>,
   \* a complete try nested in the body of an open one
   <<Line(0, "try", "", ""), Line(1, "try", "", ""), Line(2, "pass", "", ""), Line(1, "fin", "", "")>>}
\* focus: a function whose last statement is an if with an else clause (the clause keyword sits at the
\* body's indentation)
MCIfPreludes == {<<Line(0, "def", "va", "w"), Line(1, "bind", "vb", ""), Line(1, "if", "", "")>>,
                 <<Line(0, "class", "w", ""), Line(1, "def", "va", "vb"), Line(2, "if", "", "")>>}
MCIfFocusKinds == {"use", "pass", "els"}
\* focus: a line that ends in a name bound to a function, followed by comma-separated names without
\* any bracket (no call is open there: no keyword argument can be meant)
MCTupPreludes == {<<Line(0, "def", "va", "vb"), Line(1, "pass", "", ""), Line(0, "bindu", "w", "va")>>}
MCTupFocusKinds == {"tup", "pass"}
MCTryFocusKinds == {"use", "pass", "kw", "fin"}
\* focus: imports (and the bindings they compete with)
MCImpKinds == {"bind", "use", "def", "class", "pass", "imp"}
MCChars == [n \in MCNames |-> CASE n = "va" -> <<"v", "a">> [] n = "vb" -> <<"v", "b">> [] n = "w" -> <<"w">>]

\* one JSON line per program: the lines (scenario) and, per line, what the
\* spec predicts: scope, visible names for both later_locals settings, the
\* same with the line itself ignored, attribute names after the dot; per
\* identifier the lines where its binding is defined; the prefix relation.
NoCut(i) == Opens(lines[i]) \/ lines[i].k = "fin"
\* line i is the last line of a try: body (the next line is its  finally: pass): the user may still be
\* typing it before any handler exists
TryTail(i) == ~NoCut(i) /\ i < Len(lines) /\ lines[i + 1].k = "fin"
IdentInfoIn(ls, id) ==
  [line |-> id.line, role |-> id.role, name |-> id.name, det |-> Determined(ls, id),
   imported |-> Determined(ls, id) /\ Imported(ls, id),
   defline |-> IF Determined(ls, id) THEN (IF Imported(ls, id) THEN HLine(id.name) ELSE DefLine(ls, id)) ELSE 0,
   deflines |-> IF Determined(ls, id) THEN (IF Imported(ls, id) THEN {HLine(id.name)} ELSE DefLines(ls, id)) ELSE {}]
LineInfo(i) ==
  \* header: lines on which only the no-exception clause applies (block headers; on  from h import n
  \* completion proposes the names of h, a different contract)
  [scope |-> Encl(lines, i), header |-> Opens(lines[i]) \/ lines[i].k \in {"fin", "imp"},
   handler |-> lines[i].k = "fin",
   visT |-> VisibleAt(lines, i, TRUE), visF |-> VisibleAt(lines, i, FALSE),
   mustT |-> MustAt(lines, i, TRUE), mustF |-> MustAt(lines, i, FALSE),
   cutT |-> IF NoCut(i) THEN {} ELSE MustAt(Cut(lines, i), i, TRUE),
   cutF |-> IF NoCut(i) THEN {} ELSE MustAt(Cut(lines, i), i, FALSE),
   attrDet |-> lines[i].k = "attr" /\ AttrClass(lines, i) # NoScope,
   attrs |-> Attrs(lines, i),
   \* definitions of the identifiers below, when line i is incomplete and its try: has no handler yet
   tryTail |-> TryTail(i),
   \* (keyword arguments: the only identifiers of the fragment that cannot be found by evaluating
   \* their text as an expression)
   below |-> IF TryTail(i)
             THEN {IdentInfoIn(Cut(lines, i), id) :
                     id \in {x \in Idents(lines) : x.line > i + 1 /\ x.role = "u" /\ lines[x.line].k = "kw"}}
             ELSE {}]
IdentInfo(id) == IdentInfoIn(lines, id)
Behaviour ==
  [lines |-> lines, hoff |-> hoff, horder |-> HOrder,
   info |-> [i \in 1..Len(lines) |-> LineInfo(i)],
   idents |-> {IdentInfo(id) : id \in Idents(lines)},
   scopes |-> {[s |-> s, kind |-> ScopeKind(lines, s), bound |-> Bound(lines, s),
                binds |-> {[n |-> nm, at |-> BindLines(lines, s, nm)] : nm \in Bound(lines, s)}] :
                 s \in {0} \cup {i \in 1..Len(lines) : Header(lines[i])}},
   pfx |-> {}]
PfxRel == UNION {{[name |-> n, pre |-> p] : p \in Prefixes(Chars[n])} : n \in Names}
Export == IsProgram(lines) =>
            PrintT(<<"BEH", ToJson([Behaviour EXCEPT !.pfx = PfxRel])>>)
=============================================================================
