----------------------------- MODULE MC_PyAssist -----------------------------
EXTENDS PyAssist, Json

MCNames == {"va", "vb", "w"}
MCChars == [n \in MCNames |-> CASE n = "va" -> <<"v", "a">> [] n = "vb" -> <<"v", "b">> [] n = "w" -> <<"w">>]

\* one JSON line per program: the lines (scenario) and, per line, what the
\* spec predicts: scope, visible names for both later_locals settings, the
\* same with the line itself ignored, attribute names after the dot; per
\* identifier the lines where its binding is defined; the prefix relation.
LineInfo(i) ==
  [scope |-> Encl(lines, i), header |-> Header(lines[i]),
   visT |-> VisibleAt(lines, i, TRUE), visF |-> VisibleAt(lines, i, FALSE),
   mustT |-> MustAt(lines, i, TRUE), mustF |-> MustAt(lines, i, FALSE),
   cutT |-> IF Header(lines[i]) THEN {} ELSE MustAt(Cut(lines, i), i, TRUE),
   cutF |-> IF Header(lines[i]) THEN {} ELSE MustAt(Cut(lines, i), i, FALSE),
   attrDet |-> lines[i].k = "attr" /\ AttrClass(lines, i) # NoScope,
   attrs |-> Attrs(lines, i)]
IdentInfo(id) ==
  [line |-> id.line, role |-> id.role, name |-> id.name, det |-> Determined(lines, id),
   defline |-> IF Determined(lines, id) THEN DefLine(lines, id) ELSE 0,
   deflines |-> IF Determined(lines, id) THEN DefLines(lines, id) ELSE {}]
Behaviour ==
  [lines |-> lines,
   info |-> [i \in 1..Len(lines) |-> LineInfo(i)],
   idents |-> {IdentInfo(id) : id \in Idents(lines)},
   scopes |-> {[s |-> s, kind |-> ScopeKind(lines, s), bound |-> Bound(lines, s),
                binds |-> {[n |-> nm, at |-> BindLines(lines, s, nm)] : nm \in Bound(lines, s)}] :
                 s \in {0} \cup {i \in 1..Len(lines) : Header(lines[i])}},
   pfx |-> {}]
PfxRel == UNION {{[name |-> n, pre |-> p] : p \in Prefixes(Chars[n])} : n \in Names}
Export == IsProgram(lines) =>
            PrintT(<<"BEH", ToJson([Behaviour EXCEPT !.pfx = PfxRel])>>)
=============================================================================
