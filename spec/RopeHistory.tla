----------------------------- MODULE RopeHistory -----------------------------
(***************************************************************************)
(* rope.base.history.History over the project tree: do, undo, redo,        *)
(* selective undo / redo of a listed change (with its dependants), drop,   *)
(* clear, the history limit, and (for C12) close / reopen of a project     *)
(* that saves its history.                                                 *)
(*                                                                         *)
(* A change set is a sequence of 1..2 leaves of RopeFS with the old        *)
(* contents its ChangeContents leaves captured when first performed.       *)
(* History.undo(change) is modelled at the grain of the code               *)
(* (history.py:53-124): BeginUndoSel computes the dependants with the      *)
(* code's one-pass algorithm and moves them to the end of the undo list;   *)
(* each UndoStep pops and un-applies one change and pushes it on the redo  *)
(* list; the last step applies `drop`.  A step whose inverse cannot run    *)
(* raises (UndoStepFails) and leaves what was done so far.                 *)
(***************************************************************************)
EXTENDS RopeFS, TLC

CONSTANTS MaxDo,        \* number of Do actions per behaviour
          MaxSteps,     \* number of API calls per behaviour (trail length)
          Limits,       \* set of history limits to choose from
          InitTreesH,   \* set of initial trees
          LeafKinds,    \* subset of {"W","CF","CD","MV","RM"}
          AllowPairs,   \* BOOLEAN: two-leaf change sets
          AllowSelective,\* BOOLEAN
          AllowReopen,  \* BOOLEAN: Close/Reopen actions (C12)
          AllowSetLimit,\* BOOLEAN: the limit preference may change in mid-session
          RootOnly,     \* names used at the top level only
          ExclusivePairs, \* pairs of paths that are rendered to the same place on disk (a file and a folder
                        \* of the same name): never present together
          AnyPairs,     \* BOOLEAN: two-leaf change sets need not be dependent
          IgnoredNames  \* file names matched by the project's ignored_resources: a change touching only
                        \* ignored resources is performed but not recorded (History._is_change_interesting)

VARIABLES tree, init,
          chg,        \* Seq of [leaves, olds]; the id of a change is its index
          undo, redo, \* Seq of ids
          pushed,     \* ids pushed out of the undo list by the limit (still in force)
          limit,
          limit0,     \* the limit the project was opened with
          dropped,    \* ids undone with drop=TRUE (forgotten, not in force)
          tainted,    \* a change was redone although a change it built on was dropped
          pend,       \* [kind, n, cnt, drop, i]: selective operation in progress
          err,        \* the last API call raised
          trail       \* Seq of completed API calls with the state after each

vars == <<tree, init, chg, undo, redo, pushed, dropped, tainted, limit, limit0, pend, err, trail>>

Idle == [kind |-> "idle", n |-> 0, cnt |-> 0, drop |-> FALSE, i |-> 0]

Range(s) == { s[k] : k \in 1..Len(s) }
Last(s)  == s[Len(s)]
Front(s) == SubSeq(s, 1, Len(s) - 1)

(***************************************************************************)
(* change sets                                                             *)
(***************************************************************************)
RECURSIVE ApplyLeaves(_, _)
\* tree after performing the leaves in order, or Poison if one is not enabled
Poison == [p \in Paths |-> -9]
ApplyLeaves(t, ls) ==
  IF ls = << >> THEN t
  ELSE IF t = Poison THEN Poison
  ELSE IF ~LeafEnabled(t, Head(ls)) THEN Poison
  ELSE ApplyLeaves(LeafApply(t, Head(ls)), Tail(ls))

RECURSIVE ReapplyLeaves(_, _)
\* the same for a redo
ReapplyLeaves(t, ls) ==
  IF ls = << >> THEN t
  ELSE IF t = Poison THEN Poison
  ELSE IF ~RedoEnabled(t, Head(ls)) THEN Poison
  ELSE ReapplyLeaves(LeafApply(t, Head(ls)), Tail(ls))

RECURSIVE CaptureOlds(_, _)
CaptureOlds(t, ls) ==
  IF ls = << >> THEN << >>
  ELSE <<IF Head(ls).k = "W" THEN t[Head(ls).p] ELSE 0>> \o CaptureOlds(LeafApply(t, Head(ls)), Tail(ls))

RECURSIVE UnapplyLeaves(_, _, _)
\* undo the leaves last-to-first
UnapplyLeaves(t, ls, olds) ==
  IF ls = << >> THEN t
  ELSE IF t = Poison THEN Poison
  ELSE LET l == Last(ls) o == Last(olds) IN
       IF ~(HasInverse(l) /\ InverseEnabled(t, l, o)) THEN Poison
       ELSE UnapplyLeaves(InverseApply(t, l, o), Front(ls), Front(olds))

TouchedBy(c) == UNION { Touched(c.leaves[k]) : k \in 1..Len(c.leaves) }

\* resource.is_folder() and resource.contains(other), or equal
RelatedPaths(r, c) ==
  IF r = c THEN TRUE
  ELSE IF IsDirPath(r) /\ StrictUnder(r, c) THEN TRUE
  ELSE IsDirPath(c) /\ StrictUnder(c, r)

Related(S, T) == \E r \in S, c \in T : RelatedPaths(r, c)

(***************************************************************************)
(* _FindChangeDependencies: one forward pass over list[i..]                *)
(***************************************************************************)
RECURSIVE DepsRec(_, _, _, _)
DepsRec(list, j, acc, res) ==
  IF j > Len(list) THEN acc
  ELSE LET t == TouchedBy(chg[list[j]]) IN
       IF Related(t, res)
         THEN DepsRec(list, j + 1, Append(acc, list[j]), res \cup t)
         ELSE DepsRec(list, j + 1, acc, res)
Deps(list, i) == DepsRec(list, i + 1, <<list[i]>>, TouchedBy(chg[list[i]]))

\* the property's own definition: least set containing list[i], closed under
\* "later in the list and touches a resource touched (or contained) by a member"
RECURSIVE Closure(_, _, _)
Closure(list, i, S) ==
  LET S2 == S \cup { j \in (i+1)..Len(list) :
                       \E m \in S : m < j /\ Related(TouchedBy(chg[list[j]]), TouchedBy(chg[list[m]])) }
  IN IF S2 = S THEN { list[j] : j \in S } ELSE Closure(list, i, S2)
DepSet(list, i) == Closure(list, i, {i})

\* _move_front: remove each and append, preserving their order
MoveToEnd(list, ds) ==
  LET keep == SelectSeq(list, LAMBDA x : x \notin Range(ds)) IN keep \o ds

(***************************************************************************)
(* Recording                                                               *)
(***************************************************************************)
TreePairs(t) == { <<p, t[p]>> : p \in {q \in Paths : t[q] # Absent} }
Step(act, arg, t, u, r, e, tn) ==
  [act |-> act, arg |-> arg, tree |-> TreePairs(t), undo |-> u, redo |-> r, err |-> e, tainted |-> tn]
\* (the property's own expectation for the tree, `never`, is added by the MC module at export)

Init ==
  /\ init \in InitTreesH
  /\ tree = init
  /\ chg = << >>
  /\ undo = << >>
  /\ redo = << >>
  /\ pushed = {}
  /\ dropped = {}
  /\ tainted = FALSE
  /\ limit \in Limits
  /\ limit0 = limit
  /\ pend = Idle
  /\ err = FALSE
  /\ trail = << >>

CanCall == pend.kind = "idle" /\ Len(trail) < MaxSteps

Truncate(u) == IF Len(u) > limit THEN SubSeq(u, Len(u) - limit + 1, Len(u)) ELSE u
Dropped(u)  == IF Len(u) > limit THEN Range(SubSeq(u, 1, Len(u) - limit)) ELSE {}

\* candidate change sets in the current tree
\* ignored resources are only used at the top level: an unrecorded change that lives inside a folder a
\* recorded change created or moved would depend on history it is not part of (outside the contract)
IgnoredOK(p) == IF p = NoPath THEN TRUE
                ELSE /\ (p[Len(p)] \in IgnoredNames => Len(p) = 1)
                     /\ \A k \in 1..Len(p) : p[k] \in RootOnly => Len(p) = 1
ExclusiveOK(t) == \A pq \in ExclusivePairs : ~(Present(t, pq[1]) /\ Present(t, pq[2]))
KLeaves == { x \in AllLeaves : x.k \in LeafKinds /\ IgnoredOK(x.p) /\ IgnoredOK(x.q)
                              /\ (x.k = "MV" => (x.p[Len(x.p)] \notin IgnoredNames /\ x.q[Len(x.q)] \notin IgnoredNames)) }
Singles == { <<l>> : l \in { x \in KLeaves : LeafEnabled(tree, x) } }

IsIgnored(p) == p[Len(p)] \in IgnoredNames
Interesting(ls) == \E k \in 1..Len(ls) : \E p \in Touched(ls[k]) : ~IsIgnored(p)

\* Project.do(changes): perform, append (if interesting), truncate to the limit, clear redo
\* an unrecorded change (ignored resources only) must not build on recorded history
UnrecordedIndependent(ls) ==
  IF Interesting(ls) THEN TRUE
  ELSE \A k \in 1..Len(chg) : Interesting(chg[k].leaves) =>
          ~Related(UNION { Touched(ls[j]) : j \in 1..Len(ls) }, TouchedBy(chg[k]))

Do(ls) ==
  /\ CanCall
  /\ Len(chg) < MaxDo
  /\ UnrecordedIndependent(ls)
  /\ LET t2 == ApplyLeaves(tree, ls)
         id == Len(chg) + 1
         u2 == IF Interesting(ls) THEN Append(undo, id) ELSE undo
     IN /\ t2 # Poison
        /\ ExclusiveOK(t2)
        /\ tree' = t2
        /\ chg' = Append(chg, [leaves |-> ls, olds |-> CaptureOlds(tree, ls)])
        /\ undo' = Truncate(u2)
        /\ pushed' = pushed \cup Dropped(u2) \cup (IF Interesting(ls) THEN {} ELSE {id})
        /\ redo' = << >>
        /\ err' = FALSE
        /\ trail' = Append(trail, Step("do", [leaves |-> ls, id |-> id], t2, Truncate(u2), << >>, FALSE, tainted))
  /\ UNCHANGED <<init, limit, pend, dropped, tainted>>

\* a two-leaf change set whose second leaf touches what the first touched
\* (dependent changes: create a folder and move into it, create and write, ...)
DoPair(l1, l2) ==
  /\ AllowPairs
  /\ CanCall
  /\ Len(chg) < MaxDo
  /\ LeafEnabled(tree, l1)
  /\ IF AnyPairs THEN l1 # l2 ELSE Related(Touched(l2), Touched(l1))
  /\ LeafLegal(LeafApply(tree, l1), l2)
  /\ LeafEnabled(LeafApply(tree, l1), l2)
  /\ Do(<<l1, l2>>)

\* History.undo() / History.redo() with empty list: HistoryError, no effect
UndoEmpty ==
  /\ CanCall
  /\ undo = << >>
  /\ err' = TRUE
  /\ trail' = Append(trail, Step("undo", [i |-> 0, drop |-> FALSE], tree, undo, redo, TRUE, tainted))
  /\ UNCHANGED <<tree, init, chg, undo, redo, pushed, dropped, tainted, limit, pend>>

RedoEmpty ==
  /\ CanCall
  /\ redo = << >>
  /\ err' = TRUE
  /\ trail' = Append(trail, Step("redo", [i |-> 0, drop |-> FALSE], tree, undo, redo, TRUE, tainted))
  /\ UNCHANGED <<tree, init, chg, undo, redo, pushed, dropped, tainted, limit, pend>>

\* History.undo(change=undo_list[i], drop=drop); i = Len(undo) is the plain undo
BeginUndoSel(i, drop) ==
  /\ CanCall
  /\ i \in 1..Len(undo)
  /\ IF AllowSelective THEN TRUE ELSE i = Len(undo) /\ ~drop
  /\ LET ds == Deps(undo, i) IN
       /\ undo' = MoveToEnd(undo, ds)
       /\ pend' = [kind |-> "undo", n |-> Len(ds), cnt |-> Len(ds), drop |-> drop, i |-> i]
  /\ UNCHANGED <<tree, init, chg, redo, pushed, dropped, tainted, limit, err, trail>>

UndoStep ==
  /\ pend.kind = "undo"
  /\ pend.n > 0
  /\ LET id == Last(undo)
         t2 == UnapplyLeaves(tree, chg[id].leaves, chg[id].olds)
     IN IF t2 # Poison
          THEN LET r2 == Append(redo, id)
                   r3 == IF pend.n = 1 /\ pend.drop
                           THEN SubSeq(r2, 1, Len(r2) - pend.cnt) ELSE r2
               IN /\ tree' = t2
                  /\ undo' = Front(undo)
                  /\ redo' = r3
                  /\ dropped' = IF pend.n = 1 /\ pend.drop
                                  THEN dropped \cup Range(SubSeq(r2, Len(r2) - pend.cnt + 1, Len(r2)))
                                  ELSE dropped
                  /\ err' = FALSE
                  /\ IF pend.n = 1
                       THEN /\ pend' = Idle
                            /\ trail' = Append(trail, Step("undo", [i |-> pend.i, drop |-> pend.drop],
                                                            t2, Front(undo), r3, FALSE, tainted))
                       ELSE /\ pend' = [pend EXCEPT !.n = pend.n - 1]
                            /\ UNCHANGED trail
          ELSE \* the change cannot be undone here: the call raises, earlier steps stay
               /\ err' = TRUE
               /\ pend' = Idle
               /\ trail' = Append(trail, Step("undo", [i |-> pend.i, drop |-> pend.drop],
                                               tree, undo, redo, TRUE, tainted))
               /\ UNCHANGED <<tree, undo, redo, dropped>>
  /\ UNCHANGED <<init, chg, pushed, limit, tainted>>

\* History.redo(change=redo_list[i]); i = Len(redo) is the plain redo
BeginRedoSel(i) ==
  /\ CanCall
  /\ i \in 1..Len(redo)
  /\ IF AllowSelective THEN TRUE ELSE i = Len(redo)
  /\ LET ds == Deps(redo, i) IN
       /\ redo' = MoveToEnd(redo, ds)
       /\ pend' = [kind |-> "redo", n |-> Len(ds), cnt |-> Len(ds), drop |-> FALSE, i |-> i]
  /\ UNCHANGED <<tree, init, chg, undo, pushed, dropped, tainted, limit, err, trail>>

\* id touches something an earlier, dropped change touched: redoing it builds on
\* a change that is gone (History.undo(drop=True) leaves such entries in redo)
BuiltOnDropped(id) ==
  \E k \in dropped : k < id /\ Related(TouchedBy(chg[id]), TouchedBy(chg[k]))

RedoStep ==
  /\ pend.kind = "redo"
  /\ pend.n > 0
  /\ tainted' = IF BuiltOnDropped(Last(redo)) THEN TRUE ELSE tainted
  /\ LET id == Last(redo)
         t2 == ReapplyLeaves(tree, chg[id].leaves)
     IN IF t2 # Poison
          THEN /\ tree' = t2
               /\ redo' = Front(redo)
               /\ undo' = Append(undo, id)
               /\ err' = FALSE
               /\ IF pend.n = 1
                    THEN /\ pend' = Idle
                         /\ trail' = Append(trail, Step("redo", [i |-> pend.i, drop |-> FALSE],
                                                         t2, Append(undo, id), Front(redo), FALSE, tainted'))
                    ELSE /\ pend' = [pend EXCEPT !.n = pend.n - 1]
                         /\ UNCHANGED trail
          ELSE /\ err' = TRUE
               /\ pend' = Idle
               /\ trail' = Append(trail, Step("redo", [i |-> pend.i, drop |-> FALSE],
                                               tree, undo, redo, TRUE, tainted'))
               /\ UNCHANGED <<tree, undo, redo>>
  /\ UNCHANGED <<init, chg, pushed, limit, dropped>>

\* History.clear()
Clear ==
  /\ CanCall
  /\ undo # << >> \/ redo # << >>
  /\ undo' = << >>
  /\ redo' = << >>
  /\ pushed' = pushed \cup Range(undo)
  /\ err' = FALSE
  /\ trail' = Append(trail, Step("clear", [i |-> 0, drop |-> FALSE], tree, << >>, << >>, FALSE, tainted))
  /\ UNCHANGED <<tree, init, chg, dropped, tainted, limit, pend>>

\* project.set("max_history_items", n) in mid-session: the limit is a preference read
\* whenever a change is recorded; lowering it takes effect at the next recorded change
SetLimit(n) ==
  /\ CanCall
  /\ n \in Limits
  /\ n # limit
  /\ limit' = n
  /\ err' = FALSE
  /\ trail' = Append(trail, Step("setlimit", [i |-> n, drop |-> FALSE], tree, undo, redo, FALSE, tainted))
  /\ UNCHANGED <<tree, init, chg, undo, redo, pushed, dropped, tainted, pend>>

\* Project.close() then Project(...) again on the same directory (C12): the
\* lists are written with ChangeToData and rebuilt with DataToChange; nothing
\* observable may change.
Reopen ==
  /\ CanCall
  /\ AllowReopen
  /\ Len(trail) > 0
  /\ trail[Len(trail)].act # "reopen"
  /\ err' = FALSE
  /\ trail' = Append(trail, Step("reopen", [i |-> 0, drop |-> FALSE], tree, undo, redo, FALSE, tainted))
  /\ UNCHANGED <<tree, init, chg, undo, redo, pushed, dropped, tainted, limit, pend>>

\* Project.sync(): save now, keep working on the same Project object; nothing observable changes,
\* and a later close must save again
Sync ==
  /\ CanCall
  /\ AllowReopen
  /\ Len(trail) > 0
  /\ trail[Len(trail)].act \notin {"reopen", "sync"}
  /\ err' = FALSE
  /\ trail' = Append(trail, Step("sync", [i |-> 0, drop |-> FALSE], tree, undo, redo, FALSE, tainted))
  /\ UNCHANGED <<tree, init, chg, undo, redo, pushed, dropped, tainted, limit, pend>>

Next0 ==
  \/ \E ls \in Singles : Do(ls)
  \/ \E l1 \in KLeaves, l2 \in KLeaves : DoPair(l1, l2)
  \/ UndoEmpty
  \/ RedoEmpty
  \/ \E i \in 1..MaxDo, d \in BOOLEAN : BeginUndoSel(i, d)
  \/ UndoStep
  \/ \E i \in 1..MaxDo : BeginRedoSel(i)
  \/ RedoStep
  \/ Clear
  \/ \E n \in Limits : AllowSetLimit /\ SetLimit(n)
  \/ Reopen
  \/ Sync

Next == Next0 /\ UNCHANGED limit0

Spec == Init /\ [][Next]_vars

\* state space without the observation variable
View == <<tree, init, chg, undo, redo, pushed, dropped, tainted, limit, limit0, pend, err>>

(***************************************************************************)
(* Properties (C11)                                                        *)
(***************************************************************************)
RECURSIVE SortedSeq(_)
SortedSeq(S) == IF S = {} THEN << >>
                ELSE LET m == CHOOSE x \in S : \A y \in S : x <= y
                     IN <<m>> \o SortedSeq(S \ {m})

RECURSIVE ReplayIds(_, _)
ReplayIds(t, ids) ==
  IF ids = << >> THEN t
  ELSE IF t = Poison THEN Poison
  ELSE ReplayIds(ApplyLeaves(t, chg[Head(ids)].leaves), Tail(ids))


InForce == Range(undo) \cup pushed

\* what the property demands of the tree in this state (Poison: the changes in
\* force cannot be performed in their original order at all)
NeverTree == ReplayIds(init, SortedSeq(InForce))

\* the tree is the one obtained by performing only the changes still in force,
\* in their original order ("as if the others had never been made")
NeverMade == (pend.kind = "idle" /\ ~tainted) => tree = ReplayIds(init, SortedSeq(InForce))
\* ... and the only way to leave it is the one known gap: redoing a change left
\* on the redo list after a change it builds on was undone with drop=TRUE
TaintOnlyByDrop == tainted => dropped # {}

\* the algorithm's dependants are exactly the closure the property describes
OnlyDependents ==
  /\ \A i \in 1..Len(undo) : pend.kind = "idle" => Range(Deps(undo, i)) = DepSet(undo, i)
  /\ \A i \in 1..Len(redo) : pend.kind = "idle" => Range(Deps(redo, i)) = DepSet(redo, i)

\* the list is cut when a change is recorded: after a Do it never exceeds the limit in force
LimitRespected == (Len(trail) > 0 /\ trail[Len(trail)].act = "do") => Len(undo) <= limit
ListsDisjoint  == Range(undo) \cap Range(redo) = {} /\ Range(undo) \cap pushed = {}
NoDuplicates   == Cardinality(Range(undo)) = Len(undo) /\ Cardinality(Range(redo)) = Len(redo)
TreeIsTree     == TreeOK(tree)
\* an undo/redo step of a listed change is always possible (nothing else
\* interfered): the call never fails half-way, except for the missing
\* inverse of RemoveResource, and for redo entries made stale by drop=TRUE
StepsNeverFail ==
  (err /\ Len(trail) > 0 /\ trail[Len(trail)].arg.i # 0 /\ trail[Len(trail)].act \in {"undo", "redo"})
     => IF dropped # {} THEN TRUE
        ELSE \E k \in 1..Len(chg) : \E j \in 1..Len(chg[k].leaves) : chg[k].leaves[j].k = "RM"

\* action properties
RedoClearedByDo == [][Len(chg') > Len(chg) => redo' = << >>]_vars
EmptyRefused    == [][(undo = << >> /\ redo = << >> /\ Len(chg') = Len(chg) /\ pend.kind = "idle" /\ pend'.kind = "idle")
                        => (tree' = tree /\ undo' = undo /\ redo' = redo)]_vars
=============================================================================
