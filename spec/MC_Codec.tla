------------------------------ MODULE MC_Codec ------------------------------
EXTENDS Codec, Json

Forms == {"F1", "F2", "F3", "F4", "F5", "F6", "F7", "F8", "F9"}
Spellings == {"utf-8", "UTF-8", "utf8", "utf-8-sig", "latin-1", "Latin_1", "iso-8859-1", "cp1252",
              "windows-1252", "iso-8859-15", "latin9", "ascii", "us-ascii", "shift_jis", "sjis"}

\* slice "cookies": every form with three encodings, every spelling in form F1
MCCookiesForms == (Forms \X {"utf-8", "cp1252", "latin-1"}) \cup ({"F1", "F7"} \X Spellings)
MCCookiesQuick == (Forms \X {"cp1252"}) \cup ({"F1"} \X Spellings)
\* slice "payload": one plain cookie per encoding
MCCookiesPlain == {"F1"} \X {"utf-8", "latin-1", "cp1252", "iso-8859-15", "ascii", "shift_jis"}
MCCookiesAll == Forms \X Spellings
\* slice "convert": no cookie or a latin-1 cookie
MCCookiesLatin == {<<"F1", "latin-1">>}

\* byte table of the alphabet, checked against Python's codecs before anything else
Table == { <<c, ClassCp[c], e, EncChar(ClassCp[c], e)>> : c \in DOMAIN ClassCp, e \in Encodings }
ASSUME PrintT(<<"TAB", ToJson(Table)>>)

FileRec(f) ==
  [bom |-> f.bom, layout |-> f.layout, form |-> f.cookie[1], spelling |-> f.cookie[2], hp |-> f.hp,
   body |-> f.body, name |-> f.name, nl |-> f.nl, final |-> f.final]

DefOffset(f) ==
  LET ls == Lines(f)
      i0 == FirstDef(f)
      RECURSIVE before(_)
      before(j) == IF j = 0 THEN 0 ELSE Len(ls[j]) + 1 + before(j - 1)
  IN before(NHead(f) + i0 - 1)

StrLits(f) ==
  LET RECURSIVE go(_)
      go(b) == IF b = <<>> THEN <<>>
               ELSE (IF Head(b).k \in {"def", "str", "two"} THEN <<PayCp(Head(b).p)>> ELSE <<>>) \o go(Tail(b))
  IN go(f.body)

Behaviour ==
  [file0 |-> FileRec(file0), enc |-> DeclEnc(file0), effective |-> Effective(file0.layout),
   act |-> act,
   padmark |-> PadMark, pre |-> pre, bytes0 |-> disk0, text0 |-> Text(file0), strs0 |-> StrLits(file0),
   bytes1 |-> disk1, text1 |-> Read(disk1, DeclEnc(file0)).text,   \* = Text(file after the action) by ReadBack
   bytes2 |-> disk, undone |-> (phase = "undone"),
   off |-> IF act.op = "rename" THEN DefOffset(file0) ELSE 0,
   \* the line the edit puts at position act.k (edit, insert)
   newline |-> IF act.op \in {"edit", "insert"} THEN Pieces(Read(disk1, DeclEnc(file0)).text)[act.k] ELSE <<>>]

Terminal == phase = "undone" \/ (phase = "done" /\ act.op = "rwb-write")
Export == Terminal => PrintT(<<"BEH", ToJson(Behaviour)>>)
=============================================================================
