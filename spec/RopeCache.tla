------------------------------ MODULE RopeCache ------------------------------
(***************************************************************************)
(* The caches of a long-lived rope Project and the protocol that keeps     *)
(* them coherent with the directory:                                       *)
(*   - the file list cache        (project.py: _FileListCacher)            *)
(*   - the module cache           (pycore.py: _ModuleCache.module_map)     *)
(*   - concluded data of modules  (resolved imports; forgotten wholesale   *)
(*                                 when any cached module is invalidated)  *)
(*   - the watch list with change indicators of the filtered observer      *)
(*     (resourceobserver.py: FilteredResourceObserver), used by validate() *)
(* Changes made through rope fan out to the observers; changes made behind *)
(* rope's back only touch the tree and are picked up by Validate.          *)
(*                                                                         *)
(* Module contents are ids; Imports(c) says which modules a content        *)
(* imports, so "resolved imports" can be computed from the tree alone      *)
(* (Truth) and compared with what the caches would answer (Answer).        *)
(***************************************************************************)
EXTENDS RopeFS, TLC

CONSTANTS MaxOps,        \* length of a behaviour
          Contents,      \* content ids that may be written
          ImportsOf,     \* content id -> set of module paths it imports
          InitTreesC,    \* initial trees
          Universe,      \* the paths behaviours may touch (a subset of Paths)
          AllowExternal, \* BOOLEAN
          Exclusive,     \* set of pairs <<p, q>> that are never present together (a.py and a/__init__.py
                         \* spell the same module name; such a tree is not a sensible project)
          ForgetOnStructure  \* BOOLEAN: concluded data is forgotten whenever a resource is created,
                             \* moved or removed and on validate (rope since 31fdd1f); FALSE = pinned rope

NotCached  == -5
\* indicators are sets of <<path, value>> pairs so that any two are comparable
Unwatched  == { << <<"unwatched">>, 0 >> }
NoneInd    == { << <<"none">>, 0 >> }   \* watched, did not exist when added (indicator None)

VARIABLES tree,
          src,        \* Paths -> content id the cached PyModule was built from | Dir | NotCached
          concl,      \* Paths -> set of resolved import targets recorded in concluded data, or {<<"?">>} if none
          filesValid, cachedFiles,
          watch,      \* Paths -> indicator (content id | Dir-with-children digest) | NoneInd | Unwatched
          ext,        \* paths touched behind rope's back since the last validate
          rootsSeen,  \* the source-folder sets this behaviour went through
          trail       \* actions taken

vars == <<tree, src, concl, filesValid, cachedFiles, watch, ext, rootsSeen, trail>>

NoConcl == { <<"?">> }

(***************************************************************************)
(* truth, computed from the tree alone                                     *)
(***************************************************************************)
PresentFiles(t) == { p \in FilePaths : IsFile(t, p) }
Children(t, d) == { p \in Paths : Len(p) = Len(d) + 1 /\ IsPrefix(d, p) /\ Present(t, p) }
\* what the (mtime, size) indicator of the real observer distinguishes
Indicator(t, p) == IF IsDir(t, p) THEN { <<c, 0>> : c \in Children(t, p) } \cup { <<p, Dir>> }
                   ELSE { <<p, t[p]>> }
\* import target m (a path) resolves iff it is present
Resolved(t, c) == { m \in ImportsOf[c] : Present(t, m) }

\* PyCore._find_source_folders: a folder with a package child is the only
\* source folder of its subtree; otherwise it is one if it holds a .py file,
\* and the search descends.  Module lookup by name starts from these, so a
\* change of this set changes what imports resolve to.
IsPackage(t, d) == IsDir(t, d) /\ Append(d, "i") \in Paths /\ IsFile(t, Append(d, "i"))
ChildDirs(t, d) == { p \in DirPaths : Len(p) = Len(d) + 1 /\ IsPrefix(d, p) /\ IsDir(t, p) }
HasPy(t, d) == \E p \in FilePaths : Len(p) = Len(d) + 1 /\ IsPrefix(d, p) /\ IsFile(t, p)
RECURSIVE SourceRoots(_, _)
SourceRoots(t, d) ==
  IF \E c \in ChildDirs(t, d) : IsPackage(t, c) THEN {d}
  ELSE (IF HasPy(t, d) THEN {d} ELSE {}) \cup UNION { SourceRoots(t, c) : c \in ChildDirs(t, d) }
Roots(t) == SourceRoots(t, << >>)

(***************************************************************************)
(* cache bookkeeping                                                       *)
(***************************************************************************)
Cached(p) == src[p] # NotCached

\* _ModuleCache._invalidate_resource(x)
InvalidateIn(s, c, w, x) ==
  IF s[x] = NotCached THEN [s |-> s, c |-> c, w |-> w]
  ELSE [s |-> [s EXCEPT ![x] = NotCached],
        c |-> [p \in Paths |-> NoConcl],              \* forget_all_data
        w |-> [w EXCEPT ![x] = Unwatched]]            \* observer.remove_resource

RECURSIVE InvalidateAll(_, _, _, _)
InvalidateAll(s, c, w, xs) ==
  IF xs = {} THEN [s |-> s, c |-> c, w |-> w]
  ELSE LET x == CHOOSE y \in xs : TRUE
           r == InvalidateIn(s, c, w, x)
       IN InvalidateAll(r.s, r.c, r.w, xs \ {x})

Watched(w, p) == w[p] # Unwatched
ParentWatched(w, p) == Len(p) > 1 /\ Watched(w, Parent(p))

\* FilteredResourceObserver._perform_changes on sets of changed / removed / created
\* watched resources, evaluated against the tree after the change (t2)
Perform(t2, changed, removed, created) ==
  LET r1 == InvalidateAll(src, concl, watch, changed \cup removed)
      \* after notifying, the observer re-records indicators
      w2 == [p \in Paths |->
               IF p \in changed THEN (IF Present(t2, p) THEN Indicator(t2, p) ELSE NoneInd)
               ELSE IF p \in removed THEN NoneInd
               ELSE IF p \in created THEN (IF Present(t2, p) THEN Indicator(t2, p) ELSE NoneInd)
               ELSE r1.w[p]]
  IN [s |-> r1.s, c |-> r1.c, w |-> w2]

\* the sets the observer derives from one notification (resourceobserver.py)
ChangedBy(p)  == { x \in {p} : Watched(watch, x) } \cup { Parent(x) : x \in { y \in {p} : ParentWatched(watch, y) } }
RemovedBy(p)  == { x \in Paths : Watched(watch, x) /\ IsPrefix(p, x) }
ParentOf(p)   == { Parent(x) : x \in { y \in {p} : ParentWatched(watch, y) } }

\* PyCore._project_structure_changed: forget_all_data()
Structural(c) == IF ForgetOnStructure THEN [p \in Paths |-> NoConcl] ELSE c

Act(name, l) == [act |-> name, leaf |-> l, tree |-> {}]
TreePairs(t) == { <<p, t[p]>> : p \in {q \in Paths : t[q] # Absent} }

(***************************************************************************)
(* changes through rope                                                    *)
(***************************************************************************)
ExclusiveOK(t) == \A pq \in Exclusive : ~(Present(t, pq[1]) /\ Present(t, pq[2]))

RopeMutate(l) ==
  /\ Len(trail) < MaxOps
  /\ ExclusiveOK(LeafApply(tree, l))
  /\ ext = {}   \* LegalHistory: rope is not asked to change files it has a stale view of
  /\ LeafEnabled(tree, l) /\ LeafLegal(tree, l)
  /\ LET t2 == LeafApply(tree, l) IN
     /\ tree' = t2
     /\ CASE l.k = "W" ->
               LET r == Perform(t2, ChangedBy(l.p), {}, {}) IN
               /\ src' = r.s /\ concl' = r.c /\ watch' = r.w
               /\ UNCHANGED <<filesValid, cachedFiles>>
          [] l.k \in {"CF", "CD"} ->
               LET r == Perform(t2, ParentOf(l.p), {}, { x \in {l.p} : Watched(watch, x) }) IN
               /\ src' = r.s /\ concl' = Structural(r.c) /\ watch' = r.w
               /\ filesValid' = FALSE /\ UNCHANGED cachedFiles
          [] l.k = "RM" ->
               LET r == Perform(t2, ParentOf(l.p), RemovedBy(l.p), {}) IN
               /\ src' = r.s /\ concl' = Structural(r.c) /\ watch' = r.w
               /\ filesValid' = FALSE /\ UNCHANGED cachedFiles
          [] l.k = "MV" ->
               LET r == Perform(t2, ParentOf(l.p) \cup ParentOf(l.q), RemovedBy(l.p),
                                { x \in {l.q} : Watched(watch, x) }) IN
               /\ src' = r.s /\ concl' = Structural(r.c) /\ watch' = r.w
               /\ filesValid' = FALSE /\ UNCHANGED cachedFiles
  /\ trail' = Append(trail, Act("rope", l))
  /\ rootsSeen' = rootsSeen \cup {Roots(LeafApply(tree, l))}
  /\ UNCHANGED ext

(***************************************************************************)
(* changes behind rope's back, then Project.validate(root)                 *)
(***************************************************************************)
ExtMutate(l) ==
  /\ AllowExternal
  /\ Len(trail) < MaxOps
  /\ LeafEnabled(tree, l) /\ LeafLegal(tree, l)
  /\ l.k # "MV"
  /\ ExclusiveOK(LeafApply(tree, l))
  /\ tree' = LeafApply(tree, l)
  /\ ext' = ext \cup Touched(l)
  /\ trail' = Append(trail, Act("ext", l))
  /\ rootsSeen' = rootsSeen \cup {Roots(LeafApply(tree, l))}
  /\ UNCHANGED <<src, concl, filesValid, cachedFiles, watch>>

Validate ==
  /\ Len(trail) < MaxOps
  /\ ext # {}
  /\ LET gone    == { p \in Paths : Watched(watch, p) /\ ~Present(tree, p) /\ watch[p] # NoneInd }
         \* only the topmost of removed folders/files is reported; contained watched ones follow
         removed == { p \in Paths : Watched(watch, p) /\ \E g \in gone : IsPrefix(g, p) }
         changed0 == { p \in Paths : Watched(watch, p) /\ Present(tree, p) /\ watch[p] # NoneInd
                                     /\ watch[p] # Indicator(tree, p) }
         changed == changed0 \cup { Parent(x) : x \in { y \in changed0 \cup gone : ParentWatched(watch, y) } }
         created == { p \in Paths : Watched(watch, p) /\ Present(tree, p) /\ watch[p] = NoneInd }
         r == Perform(tree, changed \ removed, removed, created)
     IN /\ src' = r.s /\ concl' = Structural(r.c) /\ watch' = r.w
  /\ filesValid' = FALSE
  /\ ext' = {}
  /\ trail' = Append(trail, Act("validate", Leaf("-", NoPath, NoPath, 0)))
  /\ UNCHANGED <<tree, cachedFiles, rootsSeen>>

(***************************************************************************)
(* queries warm the caches                                                 *)
(***************************************************************************)
\* project.get_files()
QueryFiles ==
  /\ Len(trail) < MaxOps
  /\ ~filesValid
  /\ filesValid' = TRUE
  /\ cachedFiles' = PresentFiles(tree)
  /\ trail' = Append(trail, Act("files", Leaf("-", NoPath, NoPath, 0)))
  /\ UNCHANGED <<tree, src, concl, watch, ext, rootsSeen>>

\* project.get_pymodule(p) and inspection of its attributes: p and every
\* module it imports (that exists) get cached and watched; the resolution is
\* recorded in p's concluded data
CacheOne(s, w, p) ==
  IF s[p] # NotCached THEN [s |-> s, w |-> w]
  ELSE [s |-> [s EXCEPT ![p] = tree[p]], w |-> [w EXCEPT ![p] = Indicator(tree, p)]]

RECURSIVE CacheSet(_, _, _)
CacheSet(s, w, ps) ==
  IF ps = {} THEN [s |-> s, w |-> w]
  ELSE LET x == CHOOSE y \in ps : TRUE
           r == CacheOne(s, w, x)
       IN CacheSet(r.s, r.w, ps \ {x})

QueryModule(p) ==
  /\ Len(trail) < MaxOps
  /\ ext = {}
  /\ IsFile(tree, p)
  /\ LET c0 == IF Cached(p) THEN src[p] ELSE tree[p]
         targets == IF concl[p] # NoConcl /\ Cached(p) THEN concl[p] ELSE Resolved(tree, c0)
         r == CacheSet(src, watch, {p} \cup targets)
     IN /\ src' = r.s
        /\ watch' = r.w
        /\ concl' = [concl EXCEPT ![p] = targets]
  /\ trail' = Append(trail, Act("module", Leaf("-", p, NoPath, 0)))
  /\ UNCHANGED <<tree, filesValid, cachedFiles, ext, rootsSeen>>

Init ==
  /\ tree \in InitTreesC
  /\ src = [p \in Paths |-> NotCached]
  /\ concl = [p \in Paths |-> NoConcl]
  /\ filesValid = FALSE
  /\ cachedFiles = {}
  /\ watch = [p \in Paths |-> Unwatched]
  /\ ext = {}
  /\ rootsSeen = {Roots(tree)}
  /\ trail = << [act |-> "init", leaf |-> Leaf("-", NoPath, NoPath, 0), tree |-> TreePairs(tree)] >>

CLeaves == { l \in AllLeaves : /\ (IF l.k = "W" THEN l.c \in Contents ELSE TRUE)
                               /\ l.p \in Universe
                               /\ (IF l.k = "MV" THEN l.q \in Universe ELSE TRUE) }

Next ==
  \/ \E l \in CLeaves : RopeMutate(l)
  \/ \E l \in CLeaves : ExtMutate(l)
  \/ Validate
  \/ QueryFiles
  \/ \E p \in FilePaths \cap Universe : QueryModule(p)

Spec == Init /\ [][Next]_vars

View == <<tree, src, concl, filesValid, cachedFiles, watch, ext, rootsSeen>>

(***************************************************************************)
(* C13 on the model: whatever the caches would answer equals the truth     *)
(***************************************************************************)
Quiet == ext = {}

FilesCoherent  == (Quiet /\ filesValid) => cachedFiles = PresentFiles(tree)
SourceCoherent == Quiet => \A p \in Paths : Cached(p) => (Present(tree, p) /\ src[p] = tree[p])
\* concluded (inferred) data was computed from the modules its imports resolved
\* to; rope retries an import *name* that failed, but objects inferred while a
\* module was missing stay cached.  Positive resolutions must never be stale:
InferNoStalePositive ==
  Quiet => \A p \in FilePaths : (Cached(p) /\ concl[p] # NoConcl) => concl[p] \subseteq Resolved(tree, src[p])
\* full coherence: holds with ForgetOnStructure, refuted without it (StaleNegative)
ImportsCoherent ==
  Quiet => \A p \in FilePaths : (Cached(p) /\ concl[p] # NoConcl) => concl[p] = Resolved(tree, src[p])
\* modules whose inferred data predates the creation of a module they import
StaleNegative == { p \in FilePaths : Cached(p) /\ concl[p] # NoConcl /\ concl[p] # Resolved(tree, src[p])
                                     /\ concl[p] \subseteq Resolved(tree, src[p]) }
\* everything cached is watched, so validate can see it change
CachedIsWatched == \A p \in Paths : Cached(p) => Watched(watch, p)
=============================================================================
