------------------------------- MODULE PyLex -------------------------------
(***************************************************************************)
(* C14 - rope's view of source text agrees with Python's tokenizer.        *)
(*                                                                         *)
(* A character-level automaton of Python 3.12 lexing, restricted to what   *)
(* the property talks about: identifiers, string literals with every       *)
(* prefix and quote style (including PEP 701 f-strings with replacement    *)
(* fields and nested strings), comments, brackets, explicit and implicit   *)
(* line joining, semicolons, dots.  Texts are built one *symbol* at a time *)
(* (Feed); a symbol is one or more characters (''' is one symbol, so is    *)
(* backslash-newline), the automaton itself runs character by character    *)
(* (Step), so TLC's states are exactly the lexer configurations after      *)
(* every lexically valid prefix of at most MaxLen symbols.                 *)
(*                                                                         *)
(* The configuration carries what the binding compares rope with:          *)
(*   regions  outermost string / f-string / comment spans                  *)
(*   stmts    logical lines as (first line, last line)                     *)
(*   names    identifier tokens (start, end, start of the attribute chain  *)
(*            / primary that ends at this identifier)                      *)
(*   joins    offsets of newline characters that do not end a line         *)
(*            logically (inside brackets or after a backslash)             *)
(* The automaton under-approximates: constructs it does not want to model  *)
(* (numbers, indentation, comments inside replacement fields, format       *)
(* specs, backslashes in raw f-strings ...) are rejected, never guessed.   *)
(* Everything it accepts is cross-checked against CPython's tokenize and   *)
(* ast by the binding.                                                     *)
(***************************************************************************)
EXTENDS Naturals, Sequences, FiniteSets, TLC

CONSTANTS Symbols,    \* subset of DOMAIN SymChars
          MaxLen,     \* symbols per text
          MaxStack    \* nesting of string / field frames

VARIABLES syms,       \* the text as symbols
          lx          \* lexer configuration after the text

vars == <<syms, lx>>

SymChars ==
  [ a |-> <<97>>, b |-> <<98>>, r |-> <<114>>, f |-> <<102>>, u |-> <<117>>,
    R |-> <<82>>, F |-> <<70>>, B |-> <<66>>,
    \* two-letter string prefixes in both orders and every case mix, one symbol each (as a
    \* text they are identifiers too: the automaton decides when the next character comes)
    rf |-> <<114, 102>>, rF |-> <<114, 70>>, Rf |-> <<82, 102>>, RF |-> <<82, 70>>,
    fr |-> <<102, 114>>, fR |-> <<102, 82>>, Fr |-> <<70, 114>>, FR |-> <<70, 82>>,
    Rb |-> <<82, 98>>, bR |-> <<98, 82>>, BR |-> <<66, 82>>,
    \* identifiers with a special spelling: soft keywords (ordinary names almost everywhere), the
    \* lone underscore, and one hard keyword (a NAME for the tokenizer, never an atom)
    smatch |-> <<109, 97, 116, 99, 104>>, scase |-> <<99, 97, 115, 101>>, stype |-> <<116, 121, 112, 101>>,
    us |-> <<95>>, knot |-> <<110, 111, 116>>,
    \* characters that str.splitlines() breaks on but that do not end a physical line for Python:
    \* form feed (a blank in code: page-break lines, leading form feed), and - legal only inside
    \* strings and comments - vertical tab, file separator, NEL, LINE / PARAGRAPH SEPARATOR
    ffd |-> <<12>>, vt |-> <<11>>, fsep |-> <<28>>, nel |-> <<133>>, ls |-> <<8232>>, ps |-> <<8233>>,
    d |-> <<49>>,            \* digit 1
    ue |-> <<233>>,          \* e-acute: non-ASCII identifier character
    sp |-> <<32>>, tab |-> <<9>>, nl |-> <<10>>, semi |-> <<59>>,
    bs |-> <<92>>,           \* backslash
    cont |-> <<92, 10>>,     \* backslash-newline
    hash |-> <<35>>,
    q1 |-> <<39>>, q2 |-> <<34>>, t1 |-> <<39, 39, 39>>, t2 |-> <<34, 34, 34>>,
    lp |-> <<40>>, rp |-> <<41>>, lb |-> <<91>>, rb |-> <<93>>, lc |-> <<123>>, rc |-> <<125>>,
    dot |-> <<46>>, eq |-> <<61>>, comma |-> <<44>> ]

IsLetter(c) == c \in 97..122 \/ c \in {82, 70, 66, 95, 233}
IsHardKeyword(run) == run = <<110, 111, 116>>          \* not
IsDigit(c) == c = 49
IsId(c) == IsLetter(c) \/ IsDigit(c)
IsQuote(c) == c \in {39, 34}
Lower(c) == IF c \in {82, 70, 66} THEN c + 32 ELSE c
LowerSeq(s) == [i \in 1..Len(s) |-> Lower(s[i])]
(* r u b f br rb fr rf, either case (u only alone) *)
ValidPrefix(s) == LowerSeq(s) \in {<<114>>, <<117>>, <<98>>, <<102>>, <<98, 114>>, <<114, 98>>,
                                   <<102, 114>>, <<114, 102>>}
HasLetter(s, c) == \E i \in 1..Len(s) : Lower(s[i]) = c
Closer(c) == CASE c = 40 -> 41 [] c = 91 -> 93 [] c = 123 -> 125

L0 ==
  [ pos |-> 0, chars |-> <<>>, line |-> 1,
    stk |-> <<>>,          \* frames: S plain string, F f-string literal part, X replacement field
    esc |-> FALSE,         \* in a string: the previous character was an active backslash
    qn |-> 0,              \* in a triple-quoted string: closing quote characters seen in a row
    pend |-> 0,            \* in an f-string literal: a brace waiting for its twin / the field
    inrun |-> FALSE, rstart |-> 0, rlet |-> <<>>,    \* identifier run in progress
    brs |-> <<>>,          \* open brackets: [c, ti] (ti = index of the "open" token)
    stmt |-> 0,            \* first line of the logical line in progress, 0 = none
    pbs |-> FALSE,         \* a backslash waits for its newline
    lastcont |-> FALSE,    \* the previous character ended a backslash continuation
    bol |-> TRUE, ws |-> FALSE,   \* only blanks so far on this line / some blank seen
    com |-> FALSE, cstart |-> 0,
    emptyq |-> 0,          \* quote character of an empty short string just closed
    regions |-> <<>>, stmts |-> <<>>, names |-> <<>>, joins |-> <<>>,
    kws |-> <<>>,          \* start offsets of the NAME tokens that are keywords, not identifiers
    bjoins |-> <<>>,       \* backslash continuations met inside brackets (redundant but legal)
    toks |-> <<>>,         \* working token stack for attribute chains
    err |-> FALSE ]

Err(L) == [L EXCEPT !.err = TRUE]
Top(L) == L.stk[Len(L.stk)]
InField(L) == L.stk # <<>> /\ Top(L).t = "X"
CodeMode(L) == L.stk = <<>> \/ InField(L)

IsAtom(t) == t.k \in {"atom", "str"}
Tok(k, s, cs) == [k |-> k, s |-> s, cs |-> cs]

(* start of the primary that ends with an atom starting at s, given the tokens before it *)
ChainStart(toks, s) ==
  LET n == Len(toks) IN
  IF n >= 2 /\ toks[n].k = "dot" /\ IsAtom(toks[n - 1]) THEN toks[n - 1].cs ELSE s

(* a token starts here: it may start a logical line; leading blanks are indentation *)
TokStart(L) ==
  IF L.stmt = 0 /\ ~InField(L)
  THEN IF L.ws THEN Err(L) ELSE [L EXCEPT !.stmt = L.line]
  ELSE L

EndRun(L) ==
  IF ~L.inrun THEN L
  ELSE IF IsHardKeyword(L.rlet)
  THEN \* a keyword is a NAME token but not an atom: what follows it starts a new primary
       [L EXCEPT !.inrun = FALSE, !.rlet = <<>>,
                 !.names = Append(@, <<L.rstart, L.pos, L.rstart>>),
                 !.kws = Append(@, L.rstart),
                 !.toks = Append(@, Tok("op", L.rstart, L.rstart))]
  ELSE LET cs == ChainStart(L.toks, L.rstart) IN
       [L EXCEPT !.inrun = FALSE, !.rlet = <<>>,
                 !.names = Append(@, <<L.rstart, L.pos, cs>>),
                 !.toks = Append(@, Tok("atom", L.rstart, cs))]

OpenStr(L, q, start, raw, isf, tri, oq) ==
  IF Len(L.stk) >= MaxStack THEN Err(L)
  ELSE LET L1 == TokStart(L) IN
       [L1 EXCEPT !.stk = Append(@, [t |-> IF isf THEN "F" ELSE "S", q |-> q, tri |-> tri, raw |-> raw,
                                      start |-> start, oq |-> oq, ti |-> Len(L.toks), dep |-> 0]),
                  !.esc = FALSE, !.qn = 0, !.pend = 0]

PushStrAtom(toks, ti, s) ==
  LET base == SubSeq(toks, 1, ti)
      n == Len(base)
      \* adjacent literals are one atom: 'a' 'b'.x starts at 'a'
      s0 == IF n >= 1 /\ base[n].k = "str" THEN base[n].cs ELSE ChainStart(base, s)
  IN IF n >= 1 /\ base[n].k = "str"
     THEN SubSeq(base, 1, n - 1) \o <<Tok("str", base[n].s, s0)>>
     ELSE Append(base, Tok("str", s, s0))

(* the closing quote character sits at L.pos *)
CloseStr(L, top) ==
  LET stk1 == SubSeq(L.stk, 1, Len(L.stk) - 1)
      empty == ~top.tri /\ L.pos = top.oq + 1
  IN [L EXCEPT !.stk = stk1, !.esc = FALSE, !.qn = 0, !.pend = 0,
               !.emptyq = IF empty THEN top.q ELSE 0,
               !.regions = IF stk1 = <<>>
                           THEN Append(@, <<top.start, L.pos + 1, IF top.t = "F" THEN "fstr" ELSE "str">>)
                           ELSE @,
               !.toks = PushStrAtom(@, top.ti, top.start)]

PushField(L) ==
  IF Len(L.stk) >= MaxStack THEN Err(L)
  ELSE [L EXCEPT !.stk = Append(@, [t |-> "X", q |-> 0, tri |-> FALSE, raw |-> FALSE, start |-> L.pos,
                                     oq |-> 0, ti |-> Len(L.toks) + 1, dep |-> Len(L.brs)]),
                 !.toks = Append(@, Tok("op", L.pos, L.pos))]

CloseBracket(L, c) ==
  IF InField(L) /\ Len(L.brs) = Top(L).dep
  THEN \* the brace that ends the replacement field (an empty field is not modelled)
       IF c = 125 /\ Len(L.toks) > Top(L).ti
       THEN [L EXCEPT !.stk = SubSeq(@, 1, Len(@) - 1), !.toks = Append(@, Tok("op", L.pos, L.pos))]
       ELSE Err(L)
  ELSE IF L.brs = <<>> THEN Err(L)
  ELSE LET o == L.brs[Len(L.brs)]
           oi == o.ti
           trailer == oi > 1 /\ IsAtom(L.toks[oi - 1])    \* call / subscript after a primary
           cs == IF trailer THEN L.toks[oi - 1].cs ELSE L.toks[oi].s
       IN IF Closer(o.c) # c THEN Err(L)
          ELSE [L EXCEPT !.brs = SubSeq(@, 1, Len(@) - 1),
                         !.toks = Append(SubSeq(@, 1, IF trailer THEN oi - 2 ELSE oi - 1),
                                         Tok("atom", cs, cs))]

Newline(L) ==
  IF InField(L) THEN Err(L)                        \* not modelled
  ELSE IF L.brs # <<>>
       THEN [L EXCEPT !.line = @ + 1, !.joins = Append(@, L.pos), !.bol = TRUE]
  ELSE IF L.stmt # 0
       THEN [L EXCEPT !.stmts = Append(@, <<L.stmt, L.line>>), !.stmt = 0, !.line = @ + 1,
                      !.bol = TRUE, !.ws = FALSE, !.toks = Append(@, Tok("op", L.pos, L.pos))]
  ELSE [L EXCEPT !.line = @ + 1, !.bol = TRUE, !.ws = FALSE]

(* a character that is not part of an identifier, in code *)
Other(L, c) ==
  IF IsQuote(c) THEN OpenStr(L, c, L.pos, FALSE, FALSE, FALSE, L.pos)
  ELSE IF c = 35 THEN IF InField(L) THEN Err(L) ELSE [L EXCEPT !.com = TRUE, !.cstart = L.pos]
  ELSE IF c = 10 THEN Newline(L)
  ELSE IF c \in {32, 9}
       THEN IF L.bol /\ L.stmt = 0 /\ L.brs = <<>> /\ ~InField(L) THEN [L EXCEPT !.ws = TRUE] ELSE L
  ELSE IF c = 12                                   \* form feed: a blank that resets the indentation column
       THEN IF L.bol /\ L.stmt = 0 /\ L.brs = <<>> /\ ~InField(L) THEN [L EXCEPT !.ws = FALSE] ELSE L
  ELSE IF c = 92 THEN IF InField(L) \/ L.stmt = 0 THEN Err(L) ELSE [L EXCEPT !.pbs = TRUE]
  ELSE IF c = 46
       THEN IF L.pos > 0 /\ L.chars[L.pos] = 46 THEN Err(L)     \* ".." / the ellipsis: not modelled
            ELSE LET L1 == TokStart(L) IN [L1 EXCEPT !.toks = Append(@, Tok("dot", L.pos, L.pos))]
  ELSE IF c \in {59, 61, 44} THEN LET L1 == TokStart(L) IN [L1 EXCEPT !.toks = Append(@, Tok("op", L.pos, L.pos))]
  ELSE IF c \in {40, 91, 123}
       THEN LET L1 == TokStart(L) IN
            [L1 EXCEPT !.toks = Append(@, Tok("open", L.pos, L.pos)),
                       !.brs = Append(@, [c |-> c, ti |-> Len(L.toks) + 1])]
  ELSE IF c \in {41, 93, 125} THEN CloseBracket(L, c)
  ELSE Err(L)

CodeStep(L, c) ==
  IF IsQuote(c) /\ L.emptyq = c THEN Err(L)        \* '' followed by ' is the start of '''
  ELSE
  LET L1 == [L EXCEPT !.emptyq = 0, !.lastcont = FALSE,
                      !.bol = IF c \in {32, 9, 12} THEN @ ELSE FALSE] IN
  IF L.pbs
  THEN IF c = 10
       THEN [L1 EXCEPT !.pbs = FALSE, !.line = @ + 1, !.joins = Append(@, L.pos), !.lastcont = TRUE, !.bol = TRUE,
                       !.bjoins = IF L.brs # <<>> THEN Append(@, L.pos) ELSE @]
       ELSE Err(L)
  ELSE IF IsId(c)
  THEN IF L.inrun THEN [L1 EXCEPT !.rlet = Append(@, c)]
       ELSE IF IsDigit(c) THEN Err(L)              \* numbers are not modelled
       ELSE TokStart([L1 EXCEPT !.inrun = TRUE, !.rstart = L.pos, !.rlet = <<c>>])
  ELSE IF L.inrun /\ IsQuote(c) /\ ValidPrefix(L.rlet)
  THEN OpenStr([L1 EXCEPT !.inrun = FALSE, !.rlet = <<>>], c, L.rstart,
               HasLetter(L.rlet, 114), HasLetter(L.rlet, 102), FALSE, L.pos)
  ELSE Other(EndRun(L1), c)

StrStep(L, c, top) ==
  LET isF == top.t = "F" IN
  IF isF /\ L.pend = 123
  THEN IF c = 123 THEN [L EXCEPT !.pend = 0]                       \* {{ is a literal brace
       ELSE CodeStep(PushField([L EXCEPT !.pend = 0]), c)
  ELSE IF isF /\ L.pend = 125
  THEN IF c = 125 THEN [L EXCEPT !.pend = 0] ELSE Err(L)
  ELSE IF L.esc
  THEN IF isF /\ c \in {123, 125} THEN Err(L)                      \* not modelled
       ELSE [L EXCEPT !.esc = FALSE, !.line = IF c = 10 THEN @ + 1 ELSE @]
  ELSE IF c = 92
  THEN IF isF /\ top.raw THEN Err(L)                               \* not modelled
       ELSE [L EXCEPT !.esc = TRUE, !.qn = 0]
  ELSE IF c = top.q
  THEN IF top.tri
       THEN IF L.qn = 2 THEN CloseStr(L, top) ELSE [L EXCEPT !.qn = @ + 1]
       ELSE CloseStr(L, top)
  ELSE IF c = 10
  THEN IF top.tri THEN [L EXCEPT !.line = @ + 1, !.qn = 0] ELSE Err(L)
  ELSE IF isF /\ c \in {123, 125} THEN [L EXCEPT !.pend = c, !.qn = 0]
  ELSE [L EXCEPT !.qn = 0]

ComStep(L, c) ==
  IF c = 10
  THEN Newline([L EXCEPT !.com = FALSE, !.regions = Append(@, <<L.cstart, L.pos, "com">>)])
  ELSE L

Dispatch(L, c) ==
  IF L.err THEN L
  ELSE IF L.com THEN ComStep(L, c)
  ELSE IF CodeMode(L) THEN CodeStep(L, c)
  ELSE StrStep(L, c, Top(L))

Step(L, c) ==
  LET M == Dispatch(L, c) IN [M EXCEPT !.pos = L.pos + 1, !.chars = Append(L.chars, c)]

RECURSIVE Fold(_, _)
Fold(L, cs) == IF cs = <<>> THEN L ELSE Fold(Step(L, Head(cs)), Tail(cs))

(* ''' and """ open a triple-quoted string when met in code *)
OpenTriple(L, q) ==
  IF L.emptyq = q THEN Err(L)
  ELSE
  LET L1 == [L EXCEPT !.emptyq = 0, !.lastcont = FALSE, !.bol = FALSE]
      pre == L.inrun /\ ValidPrefix(L.rlet)
      L2 == IF pre THEN [L1 EXCEPT !.inrun = FALSE, !.rlet = <<>>] ELSE EndRun(L1)
      L3 == OpenStr(L2, q, IF pre THEN L.rstart ELSE L.pos,
                    pre /\ HasLetter(L.rlet, 114), pre /\ HasLetter(L.rlet, 102), TRUE, L.pos + 2)
  IN [L3 EXCEPT !.pos = L.pos + 3, !.chars = L.chars \o <<q, q, q>>]

FeedTo(L, s) ==
  IF s \in {"t1", "t2"} /\ CodeMode(L) /\ ~L.com /\ ~L.pbs
  THEN OpenTriple(L, IF s = "t1" THEN 39 ELSE 34)
  ELSE Fold(L, SymChars[s])

Init == syms = <<>> /\ lx = L0

Feed(s) ==
  /\ Len(syms) < MaxLen
  /\ LET M == FeedTo(lx, s) IN ~M.err /\ lx' = M
  /\ syms' = Append(syms, s)

Next == \E s \in Symbols : Feed(s)
Spec == Init /\ [][Next]_vars

----------------------------------------------------------------------------
(* A text is complete when nothing is open *)
Accepting(L) ==
  /\ ~L.err /\ L.stk = <<>> /\ L.brs = <<>> /\ ~L.pbs /\ ~L.lastcont /\ L.pend = 0 /\ L.pos > 0

(* configuration at end of input: the pending identifier, comment and logical line are closed *)
Final(L) ==
  LET L1 == EndRun(L)
      L2 == IF L1.com THEN [L1 EXCEPT !.com = FALSE, !.regions = Append(@, <<L1.cstart, L1.pos, "com">>)] ELSE L1
  IN IF L2.stmt # 0 THEN [L2 EXCEPT !.stmts = Append(@, <<L2.stmt, L2.line>>), !.stmt = 0] ELSE L2

RECURSIVE LineStartsFrom(_, _)
LineStartsFrom(cs, i) ==
  IF i > Len(cs) THEN <<>>
  ELSE IF cs[i] = 10 THEN <<i>> \o LineStartsFrom(cs, i + 1) ELSE LineStartsFrom(cs, i + 1)
(* offsets at which lines start *)
LineStarts(L) == <<0>> \o LineStartsFrom(L.chars, 1)

LineOf(L, off) == Cardinality({i \in 1..Len(LineStarts(L)) : LineStarts(L)[i] <= off})

----------------------------------------------------------------------------
(* Invariants of the model *)
TypeOK ==
  /\ Len(syms) <= MaxLen
  /\ lx.pos = Len(lx.chars)
  /\ ~lx.err

FL == Final(lx)

(* string / comment regions are ordered, disjoint, inside the text *)
RegionsDisjointOrdered ==
  LET rs == FL.regions IN
  /\ \A i \in 1..Len(rs) : rs[i][1] < rs[i][2] /\ rs[i][2] <= lx.pos
  /\ \A i \in 1..(Len(rs) - 1) : rs[i][2] <= rs[i + 1][1]

(* a comment starts with # and holds no newline; a string starts with a prefix letter or a quote *)
(* and, once closed, ends with its quote                                                           *)
RegionShape ==
  \A i \in 1..Len(FL.regions) :
    LET r == FL.regions[i] IN
    IF r[3] = "com"
    THEN lx.chars[r[1] + 1] = 35 /\ \A j \in (r[1] + 1)..r[2] : lx.chars[j] # 10
    ELSE /\ IsLetter(lx.chars[r[1] + 1]) \/ IsQuote(lx.chars[r[1] + 1])
         /\ IsQuote(lx.chars[r[2]])

(* identifier tokens are maximal runs of identifier characters outside plain strings and comments, *)
(* and the chain they end starts at or before them                                                 *)
NamesWellFormed ==
  \A i \in 1..Len(FL.names) :
    LET n == FL.names[i] IN
    /\ n[1] < n[2] /\ n[3] <= n[1]
    /\ \A j \in (n[1] + 1)..n[2] : IsId(lx.chars[j])
    /\ n[2] < lx.pos => ~IsId(lx.chars[n[2] + 1])
    /\ ~IsDigit(lx.chars[n[1] + 1])
    /\ \A k \in 1..Len(FL.regions) :
         FL.regions[k][3] # "fstr" => (n[2] <= FL.regions[k][1] \/ n[1] >= FL.regions[k][2])
    /\ n[3] < n[1] => \E j \in (n[3] + 1)..n[1] : lx.chars[j] = 46

(* logical lines are ordered, disjoint line ranges; in a complete text every identifier outside  *)
(* strings lies on a line of exactly one logical line                                             *)
LogicalLinesPartition ==
  LET ss == FL.stmts IN
  /\ \A i \in 1..Len(ss) : ss[i][1] <= ss[i][2] /\ ss[i][2] <= lx.line
  /\ \A i \in 1..(Len(ss) - 1) : ss[i][2] < ss[i + 1][1]
  /\ Accepting(lx) =>
       \A i \in 1..Len(FL.names) :
         LET l == LineOf(lx, FL.names[i][1]) IN
         Cardinality({k \in 1..Len(ss) : ss[k][1] <= l /\ l <= ss[k][2]}) = 1

(* offset -> line -> offset and line -> offset -> line *)
LineIndexInverse ==
  LET st == LineStarts(lx) IN
  /\ \A l \in 1..Len(st) : LineOf(lx, st[l]) = l
  /\ \A off \in 0..lx.pos : st[LineOf(lx, off)] <= off
                            /\ (LineOf(lx, off) < Len(st) => off < st[LineOf(lx, off) + 1])

(* joined newlines are newlines, and the line they end is never the last of a logical line *)
JoinsAreInside ==
  \A i \in 1..Len(lx.joins) :
    /\ lx.chars[lx.joins[i] + 1] = 10
    /\ \A k \in 1..Len(FL.stmts) : FL.stmts[k][2] # LineOf(lx, lx.joins[i])

(* complete texts are balanced *)
Balanced == Accepting(lx) => lx.brs = <<>> /\ lx.stk = <<>> /\ ~lx.esc
=============================================================================
