--------------------------- MODULE MC_RopePersist ---------------------------
EXTENDS RopePersist
\* hook order: MemoryDB registers at project creation, History on first use
MCDataFiles == <<"objectdb", "history">>
=============================================================================
