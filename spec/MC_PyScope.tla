----------------------------- MODULE MC_PyScope -----------------------------
EXTENDS PyScope, Json, TLC

\* Everything the harness compares against is computed here, by the spec:
\* the binding scope of every token, the name table of every scope, the
\* resolution of every (scope, name), well-formedness.
EvRec(P, e) == [s |-> e[1], op |-> e[2], n |-> e[3], k |-> e[4], b |-> BScope(P, e),
                det |-> Determined(P, e), lc |-> InLib(P, e), sc |-> InSib(P, e)]

ProgramRecord(P) ==
  [ scopes  |-> P.scopes,
    lib     |-> P.lib,
    libname |-> P.libname,
    ev      |-> { EvRec(P, e) : e \in AllEv(P) },
    names   |-> { <<s, n>> \in ScopeIds(P) \X UsedNames(P) : Local(P, s, n) },
    resolve |-> { <<sn[1], sn[2], Resolve(P, sn[1], sn[2])>> : sn \in ScopeIds(P) \X UsedNames(P) },
    gdecl   |-> { <<s, n>> \in ScopeIds(P) \X UsedNames(P) : s # 1 /\ GlobalDecl(P, s, n) },
    ndecl   |-> { <<s, n>> \in ScopeIds(P) \X UsedNames(P) : s # 1 /\ NonlocalDecl(P, s, n) } ]

\* one line per well-formed program (C15, C02)
Export ==
  (phase = "build" /\ WellFormed(Prog)) => PrintT(<<"BEH", ToJson(ProgramRecord(Prog))>>)

\* one line per Rename step (C01): program before, request, program after
ExportRename ==
  (phase = "renamed") =>
     PrintT(<<"REN", ToJson([pre |-> ProgramRecord(pre), post |-> ProgramRecord(Prog), ren |-> ren])>>)

\* bound used as CONSTRAINT is not needed: AddScope / AddEvent carry the bounds
=============================================================================
