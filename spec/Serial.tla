------------------------------- MODULE Serial -------------------------------
(***************************************************************************)
(* rope.base.serializer: python_to_json / json_to_python, transcribed.     *)
(*                                                                         *)
(* Python values are tagged trees (all scalar payloads are strings so TLC  *)
(* can compare any two values):                                            *)
(*   [t |-> "s", v |-> text]  str      [t |-> "i", v |-> digits]  int      *)
(*   [t |-> "n"]              None     [t |-> "T", items |-> seq] tuple    *)
(*   [t |-> "L", items]       list     [t |-> "D", items |-> seq of <<key, *)
(*                                      value>>] dict (insertion order)    *)
(* JSON values: "s", "i", "n" as above, [t |-> "a", items] array,          *)
(* [t |-> "o", items |-> seq of <<string, json>>] object.                  *)
(*                                                                         *)
(* The value under test grows by wrapping (Wrap..), so TLC enumerates every *)
(* value of the bounded universe; RoundTrip and TypePreserved are checked  *)
(* on the transcription, and every value is also pushed through the real   *)
(* encoder, json.dumps/loads and the real decoder by bind/c12.py.          *)
(***************************************************************************)
EXTENDS Naturals, Sequences, FiniteSets, TLC

CONSTANTS MaxWraps,     \* nesting added on top of the depth-1 values
          Versions      \* subset of {1, 2}

VARIABLES val, ver, wraps
vars == <<val, ver, wraps>>

S(x) == [t |-> "s", v |-> x, items |-> << >>]
I(x) == [t |-> "i", v |-> x, items |-> << >>]
N    == [t |-> "n", v |-> "", items |-> << >>]
T(xs) == [t |-> "T", v |-> "", items |-> xs]
L(xs) == [t |-> "L", v |-> "", items |-> xs]
D(xs) == [t |-> "D", v |-> "", items |-> xs]
JA(xs) == [t |-> "a", v |-> "", items |-> xs]
JO(xs) == [t |-> "o", v |-> "", items |-> xs]

\* str.isdigit() on the strings of the universe
DigitStrs == {"7", "0"}
Atoms == {S("a"), S("7"), S(""), I("0"), I("7"), N}
\* keys a dict may have (hashable): plain, numeric-string, int, None, tuples; "$" is reserved
\* ... and strings that int() would parse although str.isdigit() is false ("+0", "-1", "1_0", " 7")
DKeys == {S("a"), S("7"), I("7"), N, T(<< >>), T(<<I("0"), S("a")>>), S("$"),
          S("+0"), S("-1"), S("1_0"), S(" 7")}

SeqsUpTo2(X) == {<< >>} \cup { <<x>> : x \in X } \cup { <<x, y>> : x \in X, y \in X }
Entries(V) == {<< >>} \cup { << <<k, x>> >> : k \in DKeys, x \in V }
              \cup { e \in { << <<k1, x>>, <<k2, y>> >> : k1 \in DKeys, k2 \in DKeys, x \in V, y \in V } :
                        e[1][1] # e[2][1] }

Vals1 == Atoms \cup { T(xs) : xs \in SeqsUpTo2(Atoms) } \cup { L(xs) : xs \in SeqsUpTo2(Atoms) }
               \cup { D(es) : es \in { e \in Entries(Atoms) :
                                        Len(e) < 2 \/ e[1][1] # e[2][1] } }

(***************************************************************************)
(* the encoder                                                             *)
(***************************************************************************)
IsPlainKey(k) == k.t = "s" /\ k.v \notin DigitStrs

RECURSIVE HasDollar(_)
HasDollar(x) ==
  CASE x.t \in {"T", "L"} -> \E n \in 1..Len(x.items) : HasDollar(x.items[n])
    [] x.t = "D" -> \E n \in 1..Len(x.items) : x.items[n][1] = S("$") \/ HasDollar(x.items[n][2])
    [] OTHER -> FALSE

RECURSIVE Enc(_, _, _), EncSeq(_, _, _, _), EncDict(_, _, _, _)
\* Enc(x, refs, version) = [j |-> json, r |-> references after]
Enc(x, refs, vn) ==
  CASE x.t \in {"s", "i", "n"} -> [j |-> x, r |-> refs]
    [] x.t = "T" ->
         LET e == EncSeq(x.items, refs, vn, << >>) IN
         IF vn = 1 THEN [j |-> JO(<< <<"$", S("t")>>, <<"items", JA(e.j)>> >>), r |-> e.r]
                   ELSE [j |-> JA(e.j), r |-> e.r]
    [] x.t = "L" ->
         LET e == EncSeq(x.items, refs, vn, << >>) IN
         IF vn = 2 THEN [j |-> JO(<< <<"$", S("l")>>, <<"items", JA(e.j)>> >>), r |-> e.r]
                   ELSE [j |-> JA(e.j), r |-> e.r]
    [] x.t = "D" ->
         LET e == EncDict(x.items, refs, vn, << >>) IN [j |-> JO(e.j), r |-> e.r]
EncSeq(xs, refs, vn, acc) ==
  IF xs = << >> THEN [j |-> acc, r |-> refs]
  ELSE LET e == Enc(Head(xs), refs, vn) IN EncSeq(Tail(xs), e.r, vn, Append(acc, e.j))
EncDict(es, refs, vn, acc) ==
  IF es = << >> THEN [j |-> acc, r |-> refs]
  ELSE LET k == Head(es)[1]
           x == Head(es)[2]
       IN IF IsPlainKey(k)
            THEN LET e == Enc(x, refs, vn) IN EncDict(Tail(es), e.r, vn, Append(acc, <<k.v, e.j>>))
            ELSE \* refid = len(references); references.append(encoded key); then the value
                 LET refid == Len(refs)
                     ke == Enc(k, refs, vn)
                     e  == Enc(x, Append(ke.r, ke.j), vn)
                 IN EncDict(Tail(es), e.r, vn, Append(acc, <<ToString(refid), e.j>>))

Encode(x, vn) == LET e == Enc(x, << >>, vn) IN [v |-> vn, data |-> e.j, references |-> e.r]

(***************************************************************************)
(* the decoder                                                             *)
(***************************************************************************)
HasKey(o, key) == \E n \in 1..Len(o.items) : o.items[n][1] = key
Get(o, key) == o.items[CHOOSE n \in 1..Len(o.items) : o.items[n][1] = key][2]
IsRefKey(s) == \E n \in 0..20 : ToString(n) = s
RefIndex(s) == CHOOSE n \in 0..20 : ToString(n) = s

RECURSIVE Dec(_, _, _), DecSeq(_, _, _), DecObj(_, _, _)
Dec(j, refs, vn) ==
  CASE j.t \in {"s", "i", "n"} -> j
    [] j.t = "a" -> IF vn = 1 THEN L(DecSeq(j.items, refs, vn)) ELSE T(DecSeq(j.items, refs, vn))
    [] j.t = "o" ->
         IF HasKey(j, "$")
           THEN IF Get(j, "$") = S("t") THEN T(DecSeq(Get(j, "items").items, refs, vn))
                                        ELSE L(DecSeq(Get(j, "items").items, refs, vn))
           ELSE D(DecObj(j.items, refs, vn))
DecSeq(js, refs, vn) ==
  IF js = << >> THEN << >> ELSE <<Dec(Head(js), refs, vn)>> \o DecSeq(Tail(js), refs, vn)
DecObj(es, refs, vn) ==
  IF es = << >> THEN << >>
  ELSE LET key == Head(es)[1]
           k == IF IsRefKey(key) THEN Dec(refs[RefIndex(key) + 1], refs, vn) ELSE S(key)
       IN << <<k, Dec(Head(es)[2], refs, vn)>> >> \o DecObj(Tail(es), refs, vn)

Decode(o) == Dec(o.data, o.references, o.v)

(***************************************************************************)
(* behaviour: pick a depth-1 value, wrap it up to MaxWraps times           *)
(***************************************************************************)
Init == val \in Vals1 /\ ver \in Versions /\ wraps = 0

Wrap(f(_)) == wraps < MaxWraps /\ val' = f(val) /\ wraps' = wraps + 1 /\ UNCHANGED ver

WT1(x) == T(<<x>>)
WT2(x) == T(<<S("a"), x>>)
WL1(x) == L(<<x>>)
WL2(x) == L(<<x, N>>)
WD1(x) == D(<< <<S("a"), x>> >>)
WD2(x) == D(<< <<I("7"), x>>, <<S("7"), x>> >>)
WD3(x) == D(<< <<T(<<I("0"), S("a")>>), x>>, <<N, L(<<x>>)>> >>)

Next == \/ Wrap(WT1) \/ Wrap(WT2) \/ Wrap(WL1) \/ Wrap(WL2)
        \/ Wrap(WD1) \/ Wrap(WD2) \/ Wrap(WD3)

Spec == Init /\ [][Next]_vars

(***************************************************************************)
(* properties (second half of C12)                                         *)
(***************************************************************************)
Accepts == ~HasDollar(val)
RoundTrip == Accepts => Decode(Encode(val, ver)) = val
\* the encoded form is plain JSON: object keys are strings, no tuple/list tags left
RECURSIVE PlainJson(_)
PlainJson(j) ==
  CASE j.t \in {"s", "i", "n"} -> TRUE
    [] j.t = "a" -> \A n \in 1..Len(j.items) : PlainJson(j.items[n])
    [] j.t = "o" -> \A n \in 1..Len(j.items) : PlainJson(j.items[n][2])
    [] OTHER -> FALSE
EncodedIsJson == Accepts => LET e == Encode(val, ver) IN
                   PlainJson(e.data) /\ \A n \in 1..Len(e.references) : PlainJson(e.references[n])
\* object keys of one encoded dict never collide (a plain key is never all digits)
RECURSIVE KeysDistinct(_)
KeysDistinct(j) ==
  CASE j.t = "a" -> \A n \in 1..Len(j.items) : KeysDistinct(j.items[n])
    [] j.t = "o" -> /\ \A a, b \in 1..Len(j.items) : a # b => j.items[a][1] # j.items[b][1]
                    /\ \A n \in 1..Len(j.items) : KeysDistinct(j.items[n][2])
    [] OTHER -> TRUE
NoKeyCollision == Accepts => KeysDistinct(Encode(val, ver).data)
=============================================================================
