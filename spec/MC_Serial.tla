----------------------------- MODULE MC_Serial -----------------------------
EXTENDS Serial, Json
Behaviour == [val |-> val, ver |-> ver, accepts |-> Accepts,
              encoded |-> IF Accepts THEN Encode(val, ver) ELSE [v |-> ver, data |-> N, references |-> << >>]]
Export == PrintT(<<"BEH", ToJson(Behaviour)>>)
=============================================================================
