------------------------------- MODULE RopeFS -------------------------------
(***************************************************************************)
(* Abstract project tree and the five file-system commands rope issues     *)
(* through rope.base.fscommands.FileSystemCommands (create_file,           *)
(* create_folder, write, move, remove), with the enabling conditions of    *)
(* the POSIX / shutil calls behind them.  Base module of RopeChange,       *)
(* RopeHistory, RopeCache, RopeEffects.                                    *)
(*                                                                         *)
(* A path is a non-empty sequence of names.  Names in DirNames are folders *)
(* wherever they occur, names in FileNames are files; this makes the kind  *)
(* of a path static, as it is for rope's File/Folder resource objects.     *)
(* A tree maps every path of the universe to Absent, Dir or a content id.  *)
(***************************************************************************)
EXTENDS Naturals, Integers, Sequences, FiniteSets

CONSTANTS DirNames,    \* e.g. {"d","e"}
          FileNames,   \* e.g. {"x","y"}
          MaxDepth     \* longest path

Absent == -1
Dir    == -2
Empty  == 0            \* content of a freshly created file

Names == DirNames \cup FileNames

RECURSIVE PathsOfLen(_)
PathsOfLen(n) ==
  IF n = 1 THEN { <<a>> : a \in Names }
  ELSE { Append(p, a) : p \in { q \in PathsOfLen(n-1) : q[Len(q)] \in DirNames },
                        a \in Names }

Paths == UNION { PathsOfLen(n) : n \in 1..MaxDepth }

IsDirPath(p)  == p[Len(p)] \in DirNames
IsFilePath(p) == p[Len(p)] \in FileNames
FilePaths == { p \in Paths : IsFilePath(p) }
DirPaths  == { p \in Paths : IsDirPath(p) }

Root == << >>
Parent(p) == SubSeq(p, 1, Len(p) - 1)

\* q is p or lies below p
IsPrefix(p, q) == Len(p) <= Len(q) /\ SubSeq(q, 1, Len(p)) = p
Under(p, q)    == IsPrefix(p, q)
StrictUnder(p, q) == IsPrefix(p, q) /\ p # q

\* replace prefix p of r by q
Rebase(r, p, q) == q \o SubSeq(r, Len(p) + 1, Len(r))

Trees == [Paths -> Int]

Present(t, p)   == t[p] # Absent
IsDir(t, p)     == t[p] = Dir
IsFile(t, p)    == t[p] >= 0
ParentOK(t, p)  == IF Len(p) = 1 THEN TRUE ELSE IsDir(t, Parent(p))

\* Every present node hangs below a present folder.
TreeOK(t) == \A p \in Paths : Present(t, p) => ParentOK(t, p)

EmptyTree == [p \in Paths |-> Absent]

(***************************************************************************)
(* Enabling conditions.  A command that is not enabled raises and leaves   *)
(* the tree unchanged ("natural failure"), except for the clobbering cases *)
(* which are outside the legal action set (see LeafLegal).                     *)
(***************************************************************************)
CanCreate(t, p) == ~Present(t, p) /\ ParentOK(t, p)
CanWrite(t, p)  == IsFilePath(p) /\ IsFile(t, p)
CanRemove(t, p) == Present(t, p)
\* fscommands.write() on a path opens it "wb": it also creates a missing file
\* (ChangeContents.do reads first the first time, hence CanWrite there)
CanRewrite(t, p) == IsFilePath(p) /\ ~IsDir(t, p) /\ ParentOK(t, p)

\* shutil.move(src, dst): defined here only for dst absent (no clobbering,
\* no "move into existing directory" re-targeting), same kind, dst not
\* inside src, every rebased descendant inside the universe.
MoveShape(p, q) ==
  /\ p # q
  /\ IsDirPath(p) = IsDirPath(q)
  /\ ~IsPrefix(p, q)
  /\ ~IsPrefix(q, p)
  /\ \A r \in Paths : IsPrefix(p, r) => Rebase(r, p, q) \in Paths
  /\ \A r \in Paths : IsPrefix(q, r) => Rebase(r, q, p) \in Paths   \* so the inverse is in the universe too
CanMove(t, p, q) ==
  /\ MoveShape(p, q)
  /\ Present(t, p)
  /\ ~Present(t, q)
  /\ ParentOK(t, q)

\* A move that would overwrite or be re-targeted: never generated.
ClobberingMove(t, p, q) == Present(t, p) /\ Present(t, q)

(***************************************************************************)
(* Effects                                                                 *)
(***************************************************************************)
DoCreateFile(t, p)   == [t EXCEPT ![p] = Empty]
DoCreateFolder(t, p) == [t EXCEPT ![p] = Dir]
DoWrite(t, p, c)     == [t EXCEPT ![p] = c]
DoRemove(t, p)       == [r \in Paths |-> IF IsPrefix(p, r) THEN Absent ELSE t[r]]
DoMove(t, p, q) ==
  [r \in Paths |->
     IF IsPrefix(q, r)
       THEN IF Rebase(r, q, p) \in Paths THEN t[Rebase(r, q, p)] ELSE Absent
     ELSE IF IsPrefix(p, r) THEN Absent
     ELSE t[r]]

(***************************************************************************)
(* Leaf changes of rope.base.change as records.                            *)
(*   [k |-> "W",  p, c]   ChangeContents(file p, new contents c)           *)
(*   [k |-> "CF", p]      CreateResource(file p)                           *)
(*   [k |-> "CD", p]      CreateResource(folder p)                         *)
(*   [k |-> "MV", p, q]   MoveResource(p -> q, exact)                      *)
(*   [k |-> "RM", p]      RemoveResource(p)                                *)
(* Every record carries all of k, p, q, c so that sequences are uniform.   *)
(***************************************************************************)
NoPath == << >>
Leaf(k, p, q, c) == [k |-> k, p |-> p, q |-> q, c |-> c]

WriteContents == {1, 2}

AllLeaves ==
       { Leaf("W",  p, NoPath, c) : p \in FilePaths, c \in WriteContents }
  \cup { Leaf("CF", p, NoPath, 0) : p \in FilePaths }
  \cup { Leaf("CD", p, NoPath, 0) : p \in DirPaths }
  \cup { Leaf("MV", pq[1], pq[2], 0) : pq \in { x \in Paths \X Paths : MoveShape(x[1], x[2]) } }
  \cup { Leaf("RM", p, NoPath, 0) : p \in Paths }

LeafEnabled(t, l) ==
  CASE l.k = "W"  -> CanWrite(t, l.p)
    [] l.k = "CF" -> CanCreate(t, l.p)
    [] l.k = "CD" -> CanCreate(t, l.p)
    [] l.k = "MV" -> CanMove(t, l.p, l.q)
    [] l.k = "RM" -> CanRemove(t, l.p)

\* A leaf that may be *requested* in tree t: enabled, or failing without
\* any effect.  Clobbering moves are never requested.
\* A *folder* move whose destination parent is missing is not requested either:
\* shutil.move falls back to copytree, which creates the missing parents, so
\* the command succeeds with an effect no inverse removes.
LeafLegal(t, l) ==
  IF l.k = "MV"
    THEN /\ ~ClobberingMove(t, l.p, l.q)
         /\ IF IsDirPath(l.p) /\ Present(t, l.p) THEN ParentOK(t, l.q) ELSE TRUE
    ELSE TRUE

LeafApply(t, l) ==
  CASE l.k = "W"  -> DoWrite(t, l.p, l.c)
    [] l.k = "CF" -> DoCreateFile(t, l.p)
    [] l.k = "CD" -> DoCreateFolder(t, l.p)
    [] l.k = "MV" -> DoMove(t, l.p, l.q)
    [] l.k = "RM" -> DoRemove(t, l.p)

\* performing a leaf again (redo): ChangeContents has its old contents
\* already, so it does not read the file first
RedoEnabled(t, l) == IF l.k = "W" THEN CanRewrite(t, l.p) ELSE LeafEnabled(t, l)

(***************************************************************************)
(* Inverses as rope implements them (change.py: undo methods).  `old` is   *)
(* the content ChangeContents captured when it was first performed.        *)
(* RemoveResource.undo raises NotImplementedError: HasInverse is FALSE.    *)
(***************************************************************************)
HasInverse(l) == l.k # "RM"

InverseEnabled(t, l, old) ==
  CASE l.k = "W"  -> CanRewrite(t, l.p)
    [] l.k = "CF" -> CanRemove(t, l.p)
    [] l.k = "CD" -> CanRemove(t, l.p)
    [] l.k = "MV" -> CanMove(t, l.q, l.p)
    [] l.k = "RM" -> FALSE

InverseApply(t, l, old) ==
  CASE l.k = "W"  -> DoWrite(t, l.p, old)
    [] l.k = "CF" -> DoRemove(t, l.p)
    [] l.k = "CD" -> DoRemove(t, l.p)
    [] l.k = "MV" -> DoMove(t, l.q, l.p)
    [] l.k = "RM" -> t

\* Resources a leaf reports through get_changed_resources()
Touched(l) == IF l.k = "MV" THEN {l.p, l.q} ELSE {l.p}
=============================================================================
